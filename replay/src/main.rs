//! Replay witnesses: deterministic scenarios against the REAL rsactor crate (path dependency on /repo)
//! and the real tokio.  Each scenario drives a scripted actor, records the hook-level trace and checks
//! it against the same rules the contracts state.  Output: one JSON line per scenario:
//!   {"scenario": "...", "ok": true|false, "detail": "...", "trace": [...]}
//! A scenario that fails on the current /repo tree is a concrete failing schedule for the obligation
//! whose label family it is registered under (replay/driver.py).
mod explore;
mod conformance;
#[cfg(feature = "deadlock-detection")]
mod dd;
use rsactor::{spawn, spawn_with_mailbox_capacity, Actor, ActorRef, ActorResult, ActorWeak, Message};
use std::collections::VecDeque;
use std::sync::{Arc, Mutex};
use std::time::Duration;

type Log = Arc<Mutex<Vec<String>>>;

#[derive(Clone, Debug)]
enum RunStep { True, False, Err, SleepTrue(u64) }

struct Probe { log: Log, script: VecDeque<RunStep>, stop_err: bool, runs: u32, stop_panics: bool }
struct Args { log: Log, start_ok: bool, script: Vec<RunStep>, stop_err: bool }
static STOP_PANICS: std::sync::atomic::AtomicBool = std::sync::atomic::AtomicBool::new(false);

impl Actor for Probe {
    type Args = Args;
    type Error = String;
    async fn on_start(a: Args, _r: &ActorRef<Self>) -> Result<Self, String> {
        a.log.lock().unwrap().push("start".into());
        if a.start_ok { Ok(Probe { log: a.log, script: a.script.into(), stop_err: a.stop_err, runs: 0, stop_panics: STOP_PANICS.load(std::sync::atomic::Ordering::SeqCst) }) } else { Err("start-failed".into()) }
    }
    async fn on_run(&mut self, _w: &ActorWeak<Self>) -> Result<bool, String> {
        self.runs += 1;
        let step = self.script.pop_front();
        self.log.lock().unwrap().push(format!("run:{:?}", step));
        match step {
            None => { std::future::pending::<()>().await; Ok(true) }
            Some(RunStep::True) => { tokio::task::yield_now().await; Ok(true) }
            Some(RunStep::SleepTrue(ms)) => { tokio::time::sleep(Duration::from_millis(ms)).await; Ok(true) }
            Some(RunStep::False) => Ok(false),
            Some(RunStep::Err) => Err("run-failed".into()),
        }
    }
    async fn on_stop(&mut self, _w: &ActorWeak<Self>, killed: bool) -> Result<(), String> {
        self.log.lock().unwrap().push(format!("stop:{killed}"));
        if self.stop_panics { panic!("on_stop panics (scripted)"); }
        if self.stop_err { Err("stop-failed".into()) } else { Ok(()) }
    }
}

struct Msg { id: u32, sleep_ms: u64 }
impl Message<Msg> for Probe {
    type Reply = u32;
    async fn handle(&mut self, m: Msg, _r: &ActorRef<Self>) -> u32 {
        self.log.lock().unwrap().push(format!("h:{}", m.id));
        if m.id == 666 { panic!("handler panics (scripted)"); }
        if m.sleep_ms > 0 { tokio::time::sleep(Duration::from_millis(m.sleep_ms)).await; }
        self.log.lock().unwrap().push(format!("hd:{}", m.id));
        m.id * 10
    }
}

fn new_log() -> Log { Arc::new(Mutex::new(Vec::new())) }
fn args(log: &Log) -> Args { Args { log: log.clone(), start_ok: true, script: vec![RunStep::False], stop_err: false } }
fn trace(log: &Log) -> Vec<String> { log.lock().unwrap().clone() }

struct Out { name: &'static str, ok: bool, detail: String, trace: Vec<String> }
fn emit(o: Out) {
    let esc = |s: &str| s.replace('\\', "\\\\").replace('"', "\\\"");
    let tr: Vec<String> = o.trace.iter().map(|s| format!("\"{}\"", esc(s))).collect();
    println!("{{\"scenario\": \"{}\", \"ok\": {}, \"detail\": \"{}\", \"trace\": [{}]}}", o.name, o.ok, esc(&o.detail), tr.join(", "));
}

/// hook-order oracle shared by all scenarios (C04): start first and once, stop at most once and last
fn hook_order(tr: &[String]) -> Result<(), String> {
    if tr.is_empty() { return Ok(()); }
    if tr[0] != "start" { return Err("first event is not on_start".into()); }
    if tr.iter().filter(|e| *e == "start").count() != 1 { return Err("on_start ran more than once".into()); }
    let stops: Vec<usize> = tr.iter().enumerate().filter(|(_, e)| e.starts_with("stop:")).map(|(i, _)| i).collect();
    if stops.len() > 1 { return Err("on_stop ran more than once".into()); }
    if let Some(&i) = stops.first() { if i != tr.len() - 1 { return Err(format!("hook ran after on_stop: {:?}", &tr[i..])); } }
    Ok(())
}
fn handled(tr: &[String]) -> Vec<u32> { tr.iter().filter_map(|e| e.strip_prefix("h:").map(|x| x.parse().unwrap())).collect() }

async fn join<T: Actor>(h: tokio::task::JoinHandle<ActorResult<T>>) -> Option<ActorResult<T>> {
    match tokio::time::timeout(Duration::from_secs(30), h).await { Ok(Ok(r)) => Some(r), _ => None }
}

// ------------------------------------------------------------------------------------------ scenarios
async fn lifecycle_basic() -> Out {
    let log = new_log();
    let (r, h) = spawn::<Probe>(args(&log));
    for i in 1..=5 { r.tell(Msg { id: i, sleep_ms: 0 }).await.unwrap(); }
    r.stop().await.unwrap();
    let late = r.tell(Msg { id: 99, sleep_ms: 0 }).await;
    let res = join(h).await;
    let tr = trace(&log);
    let mut ok = hook_order(&tr);
    if ok.is_ok() && handled(&tr) != vec![1, 2, 3, 4, 5] && !(late.is_ok() && handled(&tr) == vec![1, 2, 3, 4, 5]) { ok = Err(format!("handled {:?}, expected 1..5 exactly once in order", handled(&tr))); }
    if ok.is_ok() && tr.last().map(|s| s.as_str()) != Some("stop:false") { ok = Err("graceful stop must end with on_stop(false)".into()); }
    match &res { Some(ActorResult::Completed { killed: false, .. }) => {}, _ => if ok.is_ok() { ok = Err("result is not Completed{killed:false}".into()) } }
    if let Some(r) = &res { if ok.is_ok() && !(r.is_completed() && r.stopped_normally() && !r.was_killed() && !r.is_failed() && r.has_actor()) { ok = Err("ActorResult query methods disagree with Completed{killed:false}".into()); } }
    Out { name: "lifecycle_basic", ok: ok.is_ok(), detail: ok.err().unwrap_or_default(), trace: tr }
}

async fn drop_refs() -> Out {
    let log = new_log();
    let (r, h) = spawn::<Probe>(args(&log));
    for i in 1..=3 { r.tell(Msg { id: i, sleep_ms: 1 }).await.unwrap(); }
    drop(r);
    let res = join(h).await;
    let tr = trace(&log);
    let mut ok = hook_order(&tr);
    if ok.is_ok() && handled(&tr) != vec![1, 2, 3] { ok = Err(format!("dropping the last reference discarded accepted work: handled {:?}", handled(&tr))); }
    if ok.is_ok() && tr.last().map(|s| s.as_str()) != Some("stop:false") { ok = Err("refs dropped must end with on_stop(false)".into()); }
    if ok.is_ok() && res.is_none() { ok = Err("JoinHandle did not resolve after the last reference was dropped".into()); }
    Out { name: "drop_refs", ok: ok.is_ok(), detail: ok.err().unwrap_or_default(), trace: tr }
}

async fn kill_preempt() -> Out {
    let log = new_log();
    let (r, h) = spawn_with_mailbox_capacity::<Probe>(args(&log), 8);
    r.tell(Msg { id: 1, sleep_ms: 50 }).await.unwrap();
    tokio::time::sleep(Duration::from_millis(5)).await; // handler 1 is running
    for i in 2..=6 { r.tell(Msg { id: i, sleep_ms: 50 }).await.unwrap(); }
    let k1 = r.kill(); let k2 = r.kill(); // repeated, never fails
    let res = join(h).await;
    let tr = trace(&log);
    let mut ok = hook_order(&tr);
    if ok.is_ok() && (k1.is_err() || k2.is_err()) { ok = Err("kill() returned an error".into()); }
    let hs = handled(&tr);
    if ok.is_ok() && hs.len() > 2 { ok = Err(format!("kill did not pre-empt the mailbox: handlers started {:?}", hs)); }
    if ok.is_ok() && tr.last().map(|s| s.as_str()) != Some("stop:true") { ok = Err("kill must end with on_stop(true)".into()); }
    match &res { Some(x) if x.was_killed() && x.is_completed() => {}, _ => if ok.is_ok() { ok = Err("result does not report killed=true".into()) } }
    Out { name: "kill_preempt", ok: ok.is_ok(), detail: ok.err().unwrap_or_default(), trace: tr }
}

async fn idle_handler() -> Out {
    let log = new_log();
    let mut a = args(&log);
    a.script = vec![RunStep::True, RunStep::True, RunStep::SleepTrue(20), RunStep::False];
    let (r, h) = spawn::<Probe>(a);
    tokio::time::sleep(Duration::from_millis(5)).await; // on_run #3 is sleeping
    for i in 1..=3 { r.tell(Msg { id: i, sleep_ms: 0 }).await.unwrap(); }
    tokio::time::sleep(Duration::from_millis(100)).await;
    for i in 4..=5 { r.tell(Msg { id: i, sleep_ms: 0 }).await.unwrap(); }
    tokio::time::sleep(Duration::from_millis(50)).await;
    r.stop().await.unwrap();
    let _ = join(h).await;
    let tr = trace(&log);
    let mut ok = hook_order(&tr);
    let runs = tr.iter().filter(|e| e.starts_with("run:")).count();
    if ok.is_ok() && runs != 4 { ok = Err(format!("on_run body executed {runs} times, script allows exactly 4 (Ok(false) must disable it for good)")); }
    // messages first: the three queued messages are handled back to back, no on_run poll in between
    let pos: Vec<usize> = tr.iter().enumerate().filter(|(_, e)| e.starts_with("h:")).map(|(i, _)| i).collect();
    if ok.is_ok() && pos.len() == 5 { for w in pos[..3].windows(2) { if tr[w[0]..w[1]].iter().any(|e| e.starts_with("run:")) { ok = Err("on_run was polled while messages were waiting".into()); } } }
    if ok.is_ok() && handled(&tr) != vec![1, 2, 3, 4, 5] { ok = Err(format!("handled {:?}", handled(&tr))); }
    Out { name: "idle_handler", ok: ok.is_ok(), detail: ok.err().unwrap_or_default(), trace: tr }
}

async fn run_err(stop_err: bool) -> Out {
    let log = new_log();
    let mut a = args(&log);
    a.script = vec![RunStep::True, RunStep::Err];
    a.stop_err = stop_err;
    let (_r, h) = spawn::<Probe>(a);
    let res = join(h).await;
    let tr = trace(&log);
    let mut ok = hook_order(&tr);
    if ok.is_ok() && tr.last().map(|s| s.as_str()) != Some("stop:false") { ok = Err("on_run error must be followed by on_stop(false)".into()); }
    match &res {
        Some(ActorResult::Failed { actor: Some(_), error, phase, killed: false }) => {
            if ok.is_ok() && error != "run-failed" { ok = Err(format!("reported error {error:?} is not the on_run error")); }
            let want = if stop_err { rsactor::FailurePhase::OnRunThenOnStop } else { rsactor::FailurePhase::OnRun };
            if ok.is_ok() && *phase != want { ok = Err(format!("phase {phase:?}, expected {want:?}")); }
        }
        _ => if ok.is_ok() { ok = Err("result is not Failed{actor:Some, killed:false}".into()) },
    }
    if let Some(r) = &res { if ok.is_ok() && !(r.is_runtime_failed() && r.is_failed() && !r.is_completed() && r.is_cleanup_failed() == stop_err && !r.is_stop_failed() && !r.is_startup_failed()) { ok = Err("ActorResult query methods disagree with the variant".into()); } }
    Out { name: if stop_err { "run_err_then_stop_err" } else { "run_err" }, ok: ok.is_ok(), detail: ok.err().unwrap_or_default(), trace: tr }
}

async fn start_fail() -> Out {
    let log = new_log();
    let mut a = args(&log);
    a.start_ok = false;
    let (r, h) = spawn::<Probe>(a);
    let res = join(h).await;
    let late = tokio::time::timeout(Duration::from_secs(5), r.ask(Msg { id: 1, sleep_ms: 0 })).await;
    let tr = trace(&log);
    let mut ok: Result<(), String> = if tr == vec!["start".to_string()] { Ok(()) } else { Err(format!("hooks after failed on_start: {tr:?}")) };
    match &res { Some(ActorResult::Failed { actor: None, error, phase: rsactor::FailurePhase::OnStart, killed: false }) if error == "start-failed" => {}, _ => if ok.is_ok() { ok = Err("result is not Failed{OnStart, actor:None}".into()) } }
    match late { Ok(Err(_)) => {}, Ok(Ok(_)) => if ok.is_ok() { ok = Err("ask on a dead actor returned Ok".into()) }, Err(_) => if ok.is_ok() { ok = Err("ask on a dead actor hangs".into()) } }
    Out { name: "start_fail", ok: ok.is_ok(), detail: ok.err().unwrap_or_default(), trace: tr }
}

async fn stop_err() -> Out {
    let log = new_log();
    let mut a = args(&log);
    a.stop_err = true;
    let (r, h) = spawn::<Probe>(a);
    r.kill().unwrap();
    let res = join(h).await;
    let tr = trace(&log);
    let mut ok = hook_order(&tr);
    match &res { Some(ActorResult::Failed { actor: Some(_), error, phase: rsactor::FailurePhase::OnStop, killed: true }) if error == "stop-failed" => {}, _ => if ok.is_ok() { ok = Err("result is not Failed{OnStop, killed:true, error: the on_stop error}".into()) } }
    if let Some(r) = &res { if ok.is_ok() && !(r.is_stop_failed() && r.was_killed() && !r.stopped_normally() && r.error().is_some()) { ok = Err("ActorResult query methods disagree".into()); } }
    Out { name: "stop_err_on_kill", ok: ok.is_ok(), detail: ok.err().unwrap_or_default(), trace: tr }
}

#[cfg(feature = "test-utils")]
fn dl() -> u64 { rsactor::dead_letter_count() }
#[cfg(not(feature = "test-utils"))]
fn dl() -> u64 { 0 }
fn dl_enabled() -> bool { cfg!(feature = "test-utils") }

async fn sends_to_stopped() -> Out {
    let log = new_log();
    let (r, h) = spawn::<Probe>(args(&log));
    r.tell(Msg { id: 1, sleep_ms: 0 }).await.unwrap();
    let before_ok = dl();
    r.stop().await.unwrap();
    let _ = join(h).await;
    let mut ok: Result<(), String> = Ok(());
    if dl_enabled() && before_ok != dl() { ok = Err("a successful tell/stop recorded a dead letter".into()); }
    let c0 = dl();
    let t = r.tell(Msg { id: 2, sleep_ms: 0 }).await;
    if ok.is_ok() && !matches!(t, Err(rsactor::Error::Send { .. })) { ok = Err(format!("tell to a stopped actor returned {t:?}")); }
    if ok.is_ok() && dl_enabled() && dl() != c0 + 1 { ok = Err(format!("tell failure recorded {} dead letters, expected exactly 1", dl() - c0)); }
    let c1 = dl();
    let a = r.ask(Msg { id: 3, sleep_ms: 0 }).await;
    if ok.is_ok() && !matches!(a, Err(rsactor::Error::Send { .. })) { ok = Err(format!("ask to a stopped actor returned {a:?}")); }
    if ok.is_ok() && dl_enabled() && dl() != c1 + 1 { ok = Err(format!("ask failure recorded {} dead letters, expected exactly 1", dl() - c1)); }
    let c2 = dl();
    let tt = r.tell_with_timeout(Msg { id: 4, sleep_ms: 0 }, Duration::from_secs(5)).await;
    if ok.is_ok() && !matches!(tt, Err(rsactor::Error::Send { .. })) { ok = Err(format!("tell_with_timeout to a stopped actor must report Send at once, got {tt:?}")); }
    if ok.is_ok() && dl_enabled() && dl() != c2 + 1 { ok = Err(format!("tell_with_timeout failure recorded {} dead letters, expected exactly 1", dl() - c2)); }
    let c3 = dl();
    let at = r.ask_with_timeout(Msg { id: 5, sleep_ms: 0 }, Duration::from_secs(5)).await;
    if ok.is_ok() && !matches!(at, Err(rsactor::Error::Send { .. })) { ok = Err(format!("ask_with_timeout to a stopped actor must report Send, got {at:?}")); }
    if ok.is_ok() && dl_enabled() && dl() != c3 + 1 { ok = Err(format!("ask_with_timeout failure recorded {} dead letters, expected exactly 1", dl() - c3)); }
    if ok.is_ok() && (r.is_alive() || r.kill().is_err() || r.stop().await.is_err()) { ok = Err("is_alive true after the JoinHandle resolved, or kill/stop on a dead actor failed".into()); }
    let tr = trace(&log);
    if ok.is_ok() && handled(&tr) != vec![1] { ok = Err(format!("a rejected message was handled: {:?}", handled(&tr))); }
    Out { name: "sends_to_stopped", ok: ok.is_ok(), detail: ok.err().unwrap_or_default(), trace: tr }
}

async fn timeout_full_mailbox() -> Out {
    let log = new_log();
    let (r, h) = spawn_with_mailbox_capacity::<Probe>(args(&log), 1);
    r.tell(Msg { id: 1, sleep_ms: 200 }).await.unwrap();
    tokio::time::sleep(Duration::from_millis(5)).await; // handler 1 running, mailbox empty
    r.tell(Msg { id: 2, sleep_ms: 0 }).await.unwrap(); // mailbox full
    let c0 = dl();
    let t0 = tokio::time::Instant::now();
    let t = r.tell_with_timeout(Msg { id: 3, sleep_ms: 0 }, Duration::from_millis(20)).await;
    let el = t0.elapsed();
    let mut ok: Result<(), String> = Ok(());
    match &t { Err(e @ rsactor::Error::Timeout { .. }) if e.is_retryable() => {}, _ => ok = Err(format!("tell_with_timeout on a full mailbox returned {t:?}")) }
    if ok.is_ok() && (el < Duration::from_millis(20) || el > Duration::from_millis(40)) { ok = Err(format!("timeout fired after {el:?}, deadline was 20ms")); }
    if ok.is_ok() && dl_enabled() && dl() != c0 + 1 { ok = Err(format!("timeout recorded {} dead letters, expected exactly 1", dl() - c0)); }
    let a = r.ask_with_timeout(Msg { id: 4, sleep_ms: 0 }, Duration::from_millis(20)).await;
    if ok.is_ok() && !matches!(a, Err(rsactor::Error::Timeout { .. })) { ok = Err(format!("ask_with_timeout on a full mailbox returned {a:?}")); }
    tokio::time::sleep(Duration::from_millis(400)).await;
    r.stop().await.unwrap();
    let _ = join(h).await;
    let tr = trace(&log);
    if ok.is_ok() && handled(&tr) != vec![1, 2] { ok = Err(format!("a timed-out send was delivered anyway: handled {:?}", handled(&tr))); }
    Out { name: "timeout_full_mailbox", ok: ok.is_ok(), detail: ok.err().unwrap_or_default(), trace: tr }
}

async fn capacity_bound(n: usize) -> Out {
    let log = new_log();
    let (r, h) = spawn_with_mailbox_capacity::<Probe>(args(&log), n);
    r.tell(Msg { id: 0, sleep_ms: 10_000 }).await.unwrap();
    tokio::time::sleep(Duration::from_millis(5)).await; // handler 0 holds the actor; mailbox empty
    let mut accepted = 0;
    for i in 1..=(n as u32 + 3) {
        match r.tell_with_timeout(Msg { id: i, sleep_ms: 0 }, Duration::from_millis(5)).await { Ok(()) => accepted += 1, Err(_) => break }
    }
    let mut ok: Result<(), String> = Ok(());
    if accepted != n { ok = Err(format!("mailbox of capacity {n} accepted {accepted} messages while the actor was busy")); }
    r.kill().unwrap();
    let _ = join(h).await;
    Out { name: "capacity_bound", ok: ok.is_ok(), detail: ok.err().unwrap_or_default(), trace: trace(&log) }
}

async fn ask_reply_integrity() -> Out {
    let log = new_log();
    let (r, h) = spawn_with_mailbox_capacity::<Probe>(args(&log), 4);
    let mut hs = Vec::new();
    for i in 1..=8u32 { let r2 = r.clone(); hs.push(tokio::spawn(async move { (i, r2.ask(Msg { id: i, sleep_ms: (i % 3) as u64 }).await) })); }
    let mut ok: Result<(), String> = Ok(());
    for t in hs { let (i, rep) = t.await.unwrap(); if !matches!(rep, Ok(v) if v == i * 10) && ok.is_ok() { ok = Err(format!("ask #{i} got {rep:?}")); } }
    // pending asks on a killed actor must fail, not hang
    r.tell(Msg { id: 100, sleep_ms: 50 }).await.unwrap();
    let r2 = r.clone();
    let pending = tokio::spawn(async move { r2.ask(Msg { id: 101, sleep_ms: 0 }).await });
    tokio::time::sleep(Duration::from_millis(5)).await;
    r.kill().unwrap();
    match tokio::time::timeout(Duration::from_secs(5), pending).await { Ok(Ok(Err(_))) => {}, Ok(Ok(Ok(v))) => if ok.is_ok() { ok = Err(format!("ask queued behind a kill was answered: {v}")) }, _ => if ok.is_ok() { ok = Err("ask pending on a killed actor hangs".into()) } }
    let _ = join(h).await;
    let tr = trace(&log);
    let mut hsorted = handled(&tr); hsorted.sort(); hsorted.dedup();
    if ok.is_ok() && hsorted.len() != handled(&tr).len() { ok = Err("a message was handled twice".into()); }
    Out { name: "ask_reply_integrity", ok: ok.is_ok(), detail: ok.err().unwrap_or_default(), trace: tr }
}

/// ask_join: the reply is a JoinHandle; the result of THAT task is what ask_join returns, even if the actor ends meanwhile
struct JoinMsg { gate: Arc<tokio::sync::Semaphore>, fail: bool }
impl Message<JoinMsg> for Probe {
    type Reply = tokio::task::JoinHandle<u32>;
    async fn handle(&mut self, m: JoinMsg, _r: &ActorRef<Self>) -> tokio::task::JoinHandle<u32> {
        self.log.lock().unwrap().push("hj".into());
        tokio::spawn(async move { let _p = m.gate.acquire().await; if m.fail { panic!("task panics (scripted)"); } 42 })
    }
}
async fn ask_join_outlives_actor() -> Out {
    std::panic::set_hook(Box::new(|_| {}));
    let mut bad: Vec<String> = Vec::new();
    let log = new_log();
    let (r, h) = spawn::<Probe>(args(&log));
    let gate = Arc::new(tokio::sync::Semaphore::new(0));
    let (r2, g2) = (r.clone(), gate.clone());
    let caller = tokio::spawn(async move { r2.ask_join(JoinMsg { gate: g2, fail: false }).await });
    for _ in 0..500 { if trace(&log).iter().any(|e| e == "hj") { break; } tokio::time::sleep(Duration::from_millis(1)).await; }
    r.stop().await.unwrap();
    let _ = join(h).await;
    tokio::time::sleep(Duration::from_millis(20)).await;
    gate.add_permits(1);
    match tokio::time::timeout(Duration::from_secs(5), caller).await {
        Ok(Ok(Ok(42))) => {}
        other => bad.push(format!("[C03] ask_join: the handler replied with a JoinHandle, the actor then stopped; the result of that task (42) must still be returned, got {other:?}")),
    }
    // a panicking task is reported as Error::Join, an ordinary one as its value
    let (r3, h3) = spawn::<Probe>(args(&new_log()));
    let g3 = Arc::new(tokio::sync::Semaphore::new(1));
    let e = r3.ask_join(JoinMsg { gate: g3.clone(), fail: true }).await;
    if !matches!(e, Err(rsactor::Error::Join { .. })) { bad.push(format!("[C03] ask_join on a panicking task returned {e:?}, expected Error::Join")); }
    g3.add_permits(1);
    let v = r3.ask_join(JoinMsg { gate: g3, fail: false }).await;
    if !matches!(v, Ok(42)) { bad.push(format!("[C03] ask_join returned {v:?}, expected Ok(42)")); }
    r3.stop().await.unwrap(); let _ = join(h3).await;
    let _ = std::panic::take_hook();
    Out { name: "ask_join_outlives_actor", ok: bad.is_empty(), detail: bad.join("; "), trace: trace(&log) }
}

async fn erased_handles() -> Out {
    use rsactor::{ActorControl, AskHandler, TellHandler, WeakActorControl};
    let log = new_log();
    let (r, h) = spawn_with_mailbox_capacity::<Probe>(args(&log), 1);
    let t: Box<dyn TellHandler<Msg>> = (&r).into();
    let a: Box<dyn AskHandler<Msg, u32>> = (&r).into();
    let c: Box<dyn ActorControl> = (&r).into();
    let wc: Box<dyn WeakActorControl> = ActorRef::downgrade(&r).into();
    let mut ok: Result<(), String> = Ok(());
    let same = |x: rsactor::Identity| x == r.identity();
    if !(same(t.as_control().identity()) && same(a.as_control().identity()) && same(c.identity()) && same(wc.identity()) && same(t.clone().as_control().identity()) && same(c.downgrade().identity()) && wc.upgrade().map(|u| same(u.identity())).unwrap_or(false)) { ok = Err("erased handle reports another identity".into()); }
    t.tell(Msg { id: 1, sleep_ms: 100 }).await.unwrap();
    tokio::time::sleep(Duration::from_millis(5)).await;
    t.tell(Msg { id: 2, sleep_ms: 0 }).await.unwrap(); // full
    let d0 = dl();
    let tt = t.tell_with_timeout(Msg { id: 3, sleep_ms: 0 }, Duration::from_millis(10)).await;
    if ok.is_ok() && !matches!(tt, Err(rsactor::Error::Timeout { .. })) { ok = Err(format!("erased tell_with_timeout on a full mailbox returned {tt:?}")); }
    let at = a.ask_with_timeout(Msg { id: 4, sleep_ms: 0 }, Duration::from_millis(10)).await;
    if ok.is_ok() && !matches!(at, Err(rsactor::Error::Timeout { .. })) { ok = Err(format!("erased ask_with_timeout on a full mailbox returned {at:?}")); }
    // same observable effect as the inherent methods: each timed-out send is exactly one dead letter
    if ok.is_ok() && dl_enabled() && dl() != d0 + 2 { ok = Err(format!("two timed-out sends through erased handlers recorded {} dead letters, the inherent methods record 2", dl() - d0)); }
    tokio::time::sleep(Duration::from_millis(200)).await;
    let av = a.ask(Msg { id: 5, sleep_ms: 0 }).await;
    if ok.is_ok() && !matches!(av, Ok(50)) { ok = Err(format!("erased ask returned {av:?}")); }
    if ok.is_ok() && !(c.is_alive() && wc.is_alive()) { ok = Err("erased is_alive false on a live actor".into()); }
    c.stop().await.unwrap();
    let res = join(h).await;
    let tr = trace(&log);
    if ok.is_ok() && tr.last().map(|s| s.as_str()) != Some("stop:false") { ok = Err("ActorControl::stop did not stop gracefully".into()); }
    if ok.is_ok() && !matches!(res, Some(ActorResult::Completed { killed: false, .. })) { ok = Err("ActorControl::stop: result not Completed{killed:false}".into()); }
    if ok.is_ok() && handled(&tr) != vec![1, 2, 5] { ok = Err(format!("handled {:?}, expected [1,2,5]", handled(&tr))); }
    // kill through the erased control
    let log2 = new_log();
    let (r2, h2) = spawn::<Probe>(args(&log2));
    let c2: Box<dyn ActorControl> = r2.clone().into();
    c2.kill().unwrap();
    let res2 = join(h2).await;
    if ok.is_ok() && !matches!(res2, Some(ActorResult::Completed { killed: true, .. })) { ok = Err("ActorControl::kill: result not Completed{killed:true}".into()); }
    Out { name: "erased_handles", ok: ok.is_ok(), detail: ok.err().unwrap_or_default(), trace: tr }
}

async fn identity_and_liveness() -> Out {
    let mut ids = std::collections::HashSet::new();
    let mut ok: Result<(), String> = Ok(());
    let mut hs = Vec::new();
    for _ in 0..16 { hs.push(std::thread::spawn(|| { let rt = tokio::runtime::Builder::new_current_thread().enable_all().build().unwrap(); rt.block_on(async { let mut v = Vec::new(); for _ in 0..8 { let (r, h) = spawn::<Probe>(args(&new_log())); v.push(r.identity().id); r.kill().unwrap(); let _ = h.await; } v }) })); }
    for h in hs { for id in h.join().unwrap() { if !ids.insert(id) && ok.is_ok() { ok = Err(format!("actor id {id} handed out twice")); } } }
    let log = new_log();
    let (r, h) = spawn::<Probe>(args(&log));
    let w = ActorRef::downgrade(&r);
    let c = r.clone();
    if ok.is_ok() && !(w.identity() == r.identity() && c.identity() == r.identity() && w.upgrade().map(|u| u.identity() == r.identity()).unwrap_or(false) && w.clone().identity() == r.identity()) { ok = Err("derived handle reports another identity".into()); }
    if ok.is_ok() && !(r.is_alive() && w.is_alive()) { ok = Err("is_alive false on a live actor".into()); }
    drop(c); drop(r);
    let _ = join(h).await;
    if ok.is_ok() && (w.upgrade().is_some() || w.is_alive()) { ok = Err("weak reference upgrades / is_alive after the actor ended and all strong references are gone".into()); }
    Out { name: "identity_and_liveness", ok: ok.is_ok(), detail: ok.err().unwrap_or_default(), trace: trace(&log) }
}

fn blocking_api() -> Out {
    // every failed check is reported, tagged `[Cxx,..]` with the properties it speaks for (the check of a property counts a
    // failure only if the property is in the tag)
    let rt = tokio::runtime::Builder::new_multi_thread().worker_threads(2).enable_all().build().unwrap();
    let log = new_log();
    let (r, h) = rt.block_on(async { spawn::<Probe>(args(&log)) });
    let mut bad: Vec<String> = Vec::new();
    let r2 = r.clone();
    let th = std::thread::spawn(move || {
        let a = r2.blocking_tell(Msg { id: 1, sleep_ms: 0 }, None);
        let b = r2.blocking_ask(Msg { id: 2, sleep_ms: 0 }, None);
        #[allow(deprecated)] let c = r2.tell_blocking(Msg { id: 3, sleep_ms: 0 }, Some(Duration::from_nanos(1)));
        #[allow(deprecated)] let d = r2.ask_blocking(Msg { id: 4, sleep_ms: 0 }, Some(Duration::from_nanos(1)));
        (a, b, c, d)
    });
    let (a, b, c, d) = th.join().unwrap();
    if !(a.is_ok() && matches!(b, Ok(20)) && c.is_ok() && matches!(d, Ok(40))) { bad.push(format!("[C17,C03] blocking variants: {a:?} {b:?} {c:?} {d:?}")); }
    rt.block_on(async { r.stop().await.unwrap(); let _ = join(h).await; });
    let c0 = dl();
    let r3 = r.clone();
    let e = std::thread::spawn(move || (r3.blocking_tell(Msg { id: 5, sleep_ms: 0 }, None), r3.blocking_ask(Msg { id: 6, sleep_ms: 0 }, None))).join().unwrap();
    if !(matches!(e.0, Err(rsactor::Error::Send { .. })) && matches!(e.1, Err(rsactor::Error::Send { .. }))) { bad.push(format!("[C17] blocking sends to a stopped actor: {e:?}")); }
    if dl_enabled() && dl() != c0 + 2 { bad.push(format!("[C13,C17] blocking failures recorded {} dead letters, expected 2", dl() - c0)); }
    let tr = trace(&log);
    if handled(&tr) != vec![1, 2, 3, 4] { bad.push(format!("[C17,C01,C02] handled {:?}", handled(&tr))); }
    Out { name: "blocking_api", ok: bad.is_empty(), detail: bad.join("; "), trace: tr }
}

/// a panic in a hook must surface as a panic JoinError (never as a normal ActorResult), on_stop must not run after it, pending
/// and later senders get errors, other actors are unaffected
async fn hook_panics() -> Out {
    std::panic::set_hook(Box::new(|_| {}));
    let mut ok: Result<(), String> = Ok(());
    // (a) handler panic
    let log = new_log();
    let (r, h) = spawn_with_mailbox_capacity::<Probe>(args(&log), 4);
    let (by, hb) = spawn::<Probe>(args(&new_log())); // bystander
    r.tell(Msg { id: 1, sleep_ms: 0 }).await.unwrap();
    let before = r.ask(Msg { id: 2, sleep_ms: 0 }).await;
    r.tell(Msg { id: 666, sleep_ms: 0 }).await.unwrap();
    let r3 = r.clone();
    let behind = tokio::spawn(async move { r3.ask(Msg { id: 3, sleep_ms: 0 }).await });
    let jr = tokio::time::timeout(Duration::from_secs(5), h).await;
    match &jr { Ok(Err(e)) if e.is_panic() => {}, _ => ok = Err("a handler panic did not surface as a panic JoinError".into()) }
    let tr = trace(&log);
    if ok.is_ok() && tr.iter().any(|e| e.starts_with("stop:")) { ok = Err("on_stop ran after a handler panic".into()); }
    if ok.is_ok() && !matches!(before, Ok(20)) { ok = Err("an ask handled before the panic did not get its reply".into()); }
    if ok.is_ok() && !matches!(tokio::time::timeout(Duration::from_secs(5), behind).await, Ok(Ok(Err(_)))) { ok = Err("an ask queued behind the panicking message did not fail (hang or Ok)".into()); }
    if ok.is_ok() && r.tell(Msg { id: 4, sleep_ms: 0 }).await.is_ok() { ok = Err("tell to a panicked actor returned Ok".into()); }
    if ok.is_ok() && !matches!(by.ask(Msg { id: 5, sleep_ms: 0 }).await, Ok(50)) { ok = Err("another actor stopped working after the panic".into()); }
    by.stop().await.unwrap(); let _ = join(hb).await;
    // (b) on_run error, then the cleanup on_stop panics
    STOP_PANICS.store(true, std::sync::atomic::Ordering::SeqCst);
    let log2 = new_log();
    let mut a = args(&log2);
    a.script = vec![RunStep::Err];
    let (_r, h2) = spawn::<Probe>(a);
    let jr2 = tokio::time::timeout(Duration::from_secs(5), h2).await;
    STOP_PANICS.store(false, std::sync::atomic::Ordering::SeqCst);
    match &jr2 { Ok(Err(e)) if e.is_panic() => {}, Ok(Ok(res)) => if ok.is_ok() { ok = Err(format!("a panic in the cleanup on_stop after an on_run error surfaced as a normal result (is_failed={})", res.is_failed())) }, _ => if ok.is_ok() { ok = Err("actor did not end after on_run error + on_stop panic".into()) } }
    let _ = std::panic::take_hook();
    Out { name: "hook_panics", ok: ok.is_ok(), detail: ok.err().unwrap_or_default(), trace: tr }
}

/// BOUNDED stand-in for blocking_*_with_timeout_impl (std::thread + nested runtime: outside the verifier's reach).
/// Real time, generous margins: handler holds the actor for 1500 ms, timeouts are 100 ms.
fn blocking_timeout() -> Out {
    let rt = tokio::runtime::Builder::new_multi_thread().worker_threads(2).enable_all().build().unwrap();
    let log = new_log();
    let (r, h) = rt.block_on(async { spawn_with_mailbox_capacity::<Probe>(args(&log), 1) });
    let mut bad: Vec<String> = Vec::new();
    rt.block_on(async { r.tell(Msg { id: 1, sleep_ms: 1500 }).await.unwrap(); tokio::time::sleep(Duration::from_millis(100)).await; r.tell(Msg { id: 2, sleep_ms: 0 }).await.unwrap(); });
    let c0 = dl();
    let r2 = r.clone();
    let t0 = std::time::Instant::now();
    let (a, ea, b, eb, c0b, c) = std::thread::spawn(move || {
        let a = r2.blocking_tell(Msg { id: 3, sleep_ms: 0 }, Some(Duration::from_millis(100))); let ea = t0.elapsed();
        let b = r2.blocking_ask(Msg { id: 4, sleep_ms: 0 }, Some(Duration::from_millis(100))); let eb = t0.elapsed();
        let c0b = dl();
        // the deprecated alias IGNORES its timeout: on the still-full mailbox it waits for room instead of timing out
        #[allow(deprecated)] let c = r2.tell_blocking(Msg { id: 7, sleep_ms: 0 }, Some(Duration::from_millis(100)));
        (a, ea, b, eb, c0b, c)
    }).join().unwrap();
    if !matches!(c, Ok(())) { bad.push(format!("[C17] tell_blocking (deprecated alias, must ignore its timeout) on a full mailbox returned {c:?}")); }
    if !matches!(a, Err(rsactor::Error::Timeout { .. })) { bad.push(format!("[C17,C10] blocking_tell with timeout on a full mailbox returned {a:?}")); }
    if !matches!(b, Err(rsactor::Error::Timeout { .. })) { bad.push(format!("[C17,C10] blocking_ask with timeout on a full mailbox returned {b:?}")); }
    if ea < Duration::from_millis(100) || eb > Duration::from_millis(1200) { bad.push(format!("[C17,C10] blocking timeouts returned after {ea:?} / {eb:?} (deadlines 100ms each)")); }
    if dl_enabled() && c0b != c0 + 2 { bad.push(format!("[C13,C17] blocking timeouts recorded {} dead letters, expected 2", c0b - c0)); }
    // callable from inside a runtime context without panicking
    let r3 = r.clone();
    let inside = std::panic::catch_unwind(std::panic::AssertUnwindSafe(|| rt.block_on(async { r3.blocking_tell(Msg { id: 5, sleep_ms: 0 }, Some(Duration::from_millis(3000))) })));
    match inside { Ok(Ok(())) => {}, Ok(Err(e)) => bad.push(format!("[C17] blocking_tell(Some) inside a runtime context failed: {e:?}")), Err(_) => bad.push("[C17] blocking_tell(Some) panicked inside a runtime context".into()) }
    std::thread::sleep(Duration::from_millis(400));
    rt.block_on(async { r.stop().await.unwrap(); let _ = join(h).await; });
    let c1 = dl();
    let r4 = r.clone();
    let e = std::thread::spawn(move || r4.blocking_tell(Msg { id: 6, sleep_ms: 0 }, Some(Duration::from_millis(500)))).join().unwrap();
    if !matches!(e, Err(rsactor::Error::Send { .. })) { bad.push(format!("[C17,C10] blocking_tell(Some) to a stopped actor returned {e:?} (another outcome masked by the timeout path)")); }
    if dl_enabled() && dl() != c1 + 1 { bad.push(format!("[C13,C17] blocking_tell(Some) to a stopped actor recorded {} dead letters, expected 1", dl() - c1)); }
    let tr = trace(&log);
    if handled(&tr) != vec![1, 2, 7, 5] { bad.push(format!("[C01,C17,C10] a blocking send that reported Timeout was delivered anyway (or an accepted one was lost): handled {:?}, expected [1, 2, 7, 5]", handled(&tr))); }
    Out { name: "blocking_timeout", ok: bad.is_empty(), detail: bad.join("; "), trace: tr }
}

/// C10 "failures other than a timeout are reported as themselves as soon as they occur", C17, C13, C01: blocking callers parked on a FULL mailbox
/// with a long deadline while the actor is killed.  Each must come back promptly with Err(Send) (never Timeout, never Ok), one dead
/// letter each, and nothing of theirs is handled.  (round 10: a try_send fast path + send_timeout mapped every late failure to Timeout)
fn blocking_parked_then_dies() -> Out {
    let rt = tokio::runtime::Builder::new_multi_thread().worker_threads(2).enable_all().build().unwrap();
    let log = new_log();
    let (r, h) = rt.block_on(async { spawn_with_mailbox_capacity::<Probe>(args(&log), 1) });
    let mut bad: Vec<String> = Vec::new();
    rt.block_on(async { r.tell(Msg { id: 1, sleep_ms: 700 }).await.unwrap(); tokio::time::sleep(Duration::from_millis(100)).await; r.tell(Msg { id: 2, sleep_ms: 0 }).await.unwrap(); });
    let c0 = dl();
    let t0 = std::time::Instant::now();
    let (r2, r3) = (r.clone(), r.clone());
    let ta = std::thread::spawn(move || { let a = r2.blocking_tell(Msg { id: 3, sleep_ms: 0 }, Some(Duration::from_secs(20))); (a, t0.elapsed()) });
    let tb = std::thread::spawn(move || { let b = r3.blocking_ask(Msg { id: 4, sleep_ms: 0 }, Some(Duration::from_secs(20))); (b, t0.elapsed()) });
    std::thread::sleep(Duration::from_millis(250));
    r.kill().unwrap();
    let (a, ea) = ta.join().unwrap();
    let (b, eb) = tb.join().unwrap();
    if !matches!(a, Err(rsactor::Error::Send { .. })) { bad.push(format!("[C10,C17,C01] blocking_tell(Some(20s)) parked on a full mailbox while the actor was killed returned {a:?} after {ea:?} (must be Err(Send): the actor stopped)")); }
    if !matches!(b, Err(rsactor::Error::Send { .. })) { bad.push(format!("[C10,C17,C03] blocking_ask(Some(20s)) parked on a full mailbox while the actor was killed returned {b:?} after {eb:?} (must be Err(Send))")); }
    if ea > Duration::from_secs(8) || eb > Duration::from_secs(8) { bad.push(format!("[C10,C17] the actor's death was reported only after {ea:?} / {eb:?} (deadline 20s; it died within 1s)")); }
    if dl_enabled() && dl() != c0 + 2 { bad.push(format!("[C13,C17] two blocking sends failed on a dying actor but {} dead letters were recorded", dl() - c0)); }
    let _ = rt.block_on(async { join(h).await });
    let tr = trace(&log);
    if handled(&tr).iter().any(|i| *i == 3 || *i == 4) { bad.push(format!("[C01,C17] a blocking send that reported failure was handled: {:?}", handled(&tr))); }
    Out { name: "blocking_parked_then_dies", ok: bad.is_empty(), detail: bad.join("; "), trace: tr }
}

#[cfg(feature = "metrics")]
async fn metrics_counts() -> Out {
    let log = new_log();
    let (r, h) = spawn::<Probe>(args(&log));
    for i in 1..=4 { r.tell(Msg { id: i, sleep_ms: 10 }).await.unwrap(); }
    let _ = r.ask(Msg { id: 5, sleep_ms: 30 }).await;
    r.stop().await.unwrap();
    let _ = join(h).await;
    let m = r.metrics();
    let mut ok: Result<(), String> = Ok(());
    if m.message_count != 5 || r.message_count() != 5 { ok = Err(format!("message_count {} after 5 handled messages and one stop marker", m.message_count)); }
    if ok.is_ok() && m.avg_processing_time > m.max_processing_time { ok = Err("avg > max".into()); }
    if ok.is_ok() && m.max_processing_time < Duration::from_millis(30) { ok = Err(format!("max_processing_time {:?} below the 30ms a handler demonstrably took", m.max_processing_time)); }
    let w = ActorRef::downgrade(&r);
    drop(r);
    Out { name: "metrics_counts", ok: ok.is_ok() && w.upgrade().is_none(), detail: ok.err().unwrap_or_default(), trace: trace(&log) }
}

fn main() {
    let which: Vec<String> = std::env::args().skip(1).collect();
    if which.first().map(|s| s.as_str()) == Some("conformance") {
        for a in conformance::run() { emit(Out { name: a.name, ok: a.ok, detail: a.detail, trace: vec![] }); }
        return;
    }
    if which.first().map(|s| s.as_str()) == Some("explore") {
        let seed: u64 = which.get(1).and_then(|x| x.parse().ok()).unwrap_or(1);
        let n: usize = which.get(2).and_then(|x| x.parse().ok()).unwrap_or(2000);
        let (total, bad) = explore::explore(seed, n);
        let esc = |s: &str| s.replace('\\', "\\\\").replace('"', "\\\"");
        println!("{{\"explored\": {}, \"violating\": {}}}", total, bad.len());
        for (sc, vd) in bad {
            let tr: Vec<String> = vd.trace.iter().map(|s| format!("\"{}\"", esc(s))).collect();
            let vs: Vec<String> = vd.violations.iter().map(|s| format!("\"{}\"", esc(s))).collect();
            println!("{{\"scenario\": \"{}\", \"ok\": false, \"violations\": [{}], \"trace\": [{}]}}", esc(&format!("{sc:?}")), vs.join(", "), tr.join(", "));
        }
        std::process::exit(0); // do not wait for a stuck scenario thread
    }
    let want = |n: &str| which.is_empty() || which.iter().any(|w| w == n);
    let rt = || tokio::runtime::Builder::new_current_thread().enable_all().start_paused(true).build().unwrap();
    if want("lifecycle_basic") { emit(rt().block_on(lifecycle_basic())); }
    if want("drop_refs") { emit(rt().block_on(drop_refs())); }
    if want("kill_preempt") { emit(rt().block_on(kill_preempt())); }
    if want("idle_handler") { emit(rt().block_on(idle_handler())); }
    if want("run_err") { emit(rt().block_on(run_err(false))); emit(rt().block_on(run_err(true))); }
    if want("start_fail") { emit(rt().block_on(start_fail())); }
    if want("stop_err_on_kill") { emit(rt().block_on(stop_err())); }
    if want("sends_to_stopped") { emit(rt().block_on(sends_to_stopped())); }
    if want("timeout_full_mailbox") { emit(rt().block_on(timeout_full_mailbox())); }
    if want("capacity_bound") { emit(rt().block_on(capacity_bound(3))); emit(rt().block_on(capacity_bound(1))); }
    if want("ask_reply_integrity") { emit(rt().block_on(ask_reply_integrity())); }
    if want("ask_join_outlives_actor") { emit(rt().block_on(ask_join_outlives_actor())); }
    if want("erased_handles") { emit(rt().block_on(erased_handles())); }
    if want("identity_and_liveness") { emit(rt().block_on(identity_and_liveness())); }
    if want("hook_panics") { emit(rt().block_on(hook_panics())); }
    if want("blocking_api") { emit(blocking_api()); }
    if want("blocking_timeout") { emit(blocking_timeout()); }
    if want("blocking_parked_then_dies") { emit(blocking_parked_then_dies()); }
    #[cfg(feature = "deadlock-detection")]
    {
        std::panic::set_hook(Box::new(|_| {})); // the deliberate deadlock panics are expected
        let e = |o: dd::Out| emit(Out { name: o.name, ok: o.ok, detail: o.detail, trace: o.trace });
        if want("dd_cycles") { e(rt().block_on(dd::cycle(1, "dd_self_ask"))); e(rt().block_on(dd::cycle(2, "dd_two_cycle"))); e(rt().block_on(dd::cycle(3, "dd_three_cycle"))); e(rt().block_on(dd::cycle(4, "dd_four_cycle"))); }
        if want("dd_no_residue") { e(rt().block_on(dd::no_residue())); }
        if want("dd_cycle_first_edge_parked") { e(rt().block_on(dd::cycle_first_edge_parked())); }
    }
    #[cfg(feature = "metrics")]
    if want("metrics_counts") { emit(tokio::runtime::Builder::new_current_thread().enable_all().build().unwrap().block_on(metrics_counts())); }
}
