//! Deadlock-detection witnesses (feature `deadlock-detection`): small multi-actor scenarios on the real crate.
#![allow(dead_code)]
use rsactor::{spawn_with_mailbox_capacity, Actor, ActorRef, ActorResult, ActorWeak, Message};
use std::sync::{Arc, Mutex};
use std::time::Duration;

type Log = Arc<Mutex<Vec<String>>>;
pub struct Node { name: &'static str, peers: Vec<ActorRef<Node>>, log: Log }
pub struct NArgs { name: &'static str, log: Log }
impl Actor for Node {
    type Args = NArgs;
    type Error = String;
    async fn on_start(a: NArgs, _r: &ActorRef<Self>) -> Result<Self, String> { Ok(Node { name: a.name, peers: vec![], log: a.log }) }
    async fn on_stop(&mut self, _w: &ActorWeak<Self>, _k: bool) -> Result<(), String> { Ok(()) }
}
pub struct SetPeers(pub Vec<ActorRef<Node>>);
impl Message<SetPeers> for Node { type Reply = (); async fn handle(&mut self, m: SetPeers, _r: &ActorRef<Self>) { self.peers = m.0; } }
/// ask peers along `path` (indices into each node's peer list), optionally with a timeout (ms) on the first hop, sleeping first
pub struct Chain { pub path: Vec<usize>, pub timeout_ms: Option<u64>, pub sleep_ms: u64 }
impl Message<Chain> for Node {
    type Reply = Result<u32, String>;
    async fn handle(&mut self, m: Chain, _r: &ActorRef<Self>) -> Result<u32, String> {
        self.log.lock().unwrap().push(format!("{}:chain{:?}", self.name, m.path));
        if m.sleep_ms > 0 { tokio::time::sleep(Duration::from_millis(m.sleep_ms)).await; }
        if m.path.is_empty() { return Ok(1); }
        let peer = self.peers[m.path[0]].clone();
        let next = Chain { path: m.path[1..].to_vec(), timeout_ms: None, sleep_ms: 0 };
        let r = match m.timeout_ms { Some(t) => peer.ask_with_timeout(next, Duration::from_millis(t)).await, None => peer.ask(next).await };
        self.log.lock().unwrap().push(format!("{}:asked->{}", self.name, match &r { Ok(Ok(_)) => "ok".to_string(), Ok(Err(e)) => format!("inner-err:{e}"), Err(e) => format!("err:{}", e.to_string().chars().take(40).collect::<String>()) }));
        match r { Ok(Ok(v)) => Ok(v + 1), Ok(Err(e)) => Err(e), Err(e) => Err(format!("{e}")) }
    }
}

pub struct Out { pub name: &'static str, pub ok: bool, pub detail: String, pub trace: Vec<String> }

async fn nodes(n: usize, log: &Log, cap: usize) -> (Vec<ActorRef<Node>>, Vec<tokio::task::JoinHandle<ActorResult<Node>>>) {
    let names = ["A", "B", "C", "D"];
    let mut rs = Vec::new(); let mut hs = Vec::new();
    for i in 0..n { let (r, h) = spawn_with_mailbox_capacity::<Node>(NArgs { name: names[i], log: log.clone() }, cap); rs.push(r); hs.push(h); }
    for r in &rs { r.ask(SetPeers(rs.clone())).await.unwrap(); }
    (rs, hs)
}
fn panicked(r: &Result<Result<ActorResult<Node>, tokio::task::JoinError>, tokio::time::error::Elapsed>) -> bool { matches!(r, Ok(Err(e)) if e.is_panic()) }

/// a cycle of the given length must make the closing ask panic (its actor dies), nobody hangs
pub async fn cycle(len: usize, name: &'static str) -> Out {
    let log: Log = Arc::new(Mutex::new(vec![]));
    let (rs, mut hs) = nodes(len.max(1), &log, 8).await;
    // A asks B asks ... asks A  (indices 1,2,..,0); len==1: A asks itself
    let path: Vec<usize> = (1..=len).map(|i| i % len).collect();
    let first = tokio::time::timeout(Duration::from_secs(5), rs[0].ask(Chain { path, timeout_ms: None, sleep_ms: 0 })).await;
    let closer = len - 1; // the actor whose ask closes the cycle
    let jr = tokio::time::timeout(Duration::from_secs(5), hs.remove(closer)).await;
    let mut ok: Result<(), String> = Ok(());
    if first.is_err() { ok = Err(format!("a {len}-cycle of asks was not detected: the entry ask is still waiting after 5s")); }
    if ok.is_ok() && !panicked(&jr) { ok = Err(format!("the ask closing the {len}-cycle did not panic its actor")); }
    if ok.is_ok() && matches!(first, Ok(Ok(Ok(_)))) { ok = Err("an ask inside a cycle returned Ok".into()); }
    for r in &rs { let _ = r.kill(); }
    let tr = log.lock().unwrap().clone();
    Out { name, ok: ok.is_ok(), detail: ok.err().unwrap_or_default(), trace: tr }
}

/// acyclic chains succeed, and asks that ended (completed / timed out) leave no edge behind
pub async fn no_residue() -> Out {
    let log: Log = Arc::new(Mutex::new(vec![]));
    let (rs, _hs) = nodes(3, &log, 8).await;
    let mut ok: Result<(), String> = Ok(());
    let r1 = tokio::time::timeout(Duration::from_secs(5), rs[0].ask(Chain { path: vec![1, 2], timeout_ms: None, sleep_ms: 0 })).await;
    if !matches!(r1, Ok(Ok(Ok(3)))) { ok = Err(format!("acyclic chain A->B->C returned {r1:?}")); }
    tokio::time::sleep(Duration::from_millis(20)).await;
    // reverse direction later: C -> B -> A must be fine (edges of the finished asks are gone)
    let r2 = tokio::time::timeout(Duration::from_secs(5), rs[2].ask(Chain { path: vec![1, 0], timeout_ms: None, sleep_ms: 0 })).await;
    if ok.is_ok() && !matches!(r2, Ok(Ok(Ok(3)))) { ok = Err(format!("reverse chain after the first one finished returned {r2:?} (stale wait-for edge?)")); }
    // an ask that timed out must not leave its edge: A asks B with 10ms timeout while B sleeps 50ms inside the nested handler
    let r3 = tokio::time::timeout(Duration::from_secs(5), rs[0].ask(Chain { path: vec![1], timeout_ms: Some(10), sleep_ms: 0 })).await;
    let _ = r3; // B's nested handler is instantaneous, so this normally succeeds; the slow variant follows
    rs[1].tell(Chain { path: vec![], timeout_ms: None, sleep_ms: 60 }).await.unwrap(); // keep B busy
    let r4 = tokio::time::timeout(Duration::from_secs(5), rs[0].ask(Chain { path: vec![1], timeout_ms: Some(10), sleep_ms: 0 })).await;
    if ok.is_ok() && !matches!(&r4, Ok(Ok(Err(e))) if e.contains("timed out")) { ok = Err(format!("A's nested ask to busy B should time out, got {r4:?}")); }
    tokio::time::sleep(Duration::from_millis(200)).await;
    let r5 = tokio::time::timeout(Duration::from_secs(5), rs[1].ask(Chain { path: vec![0], timeout_ms: None, sleep_ms: 0 })).await;
    if ok.is_ok() && !matches!(r5, Ok(Ok(Ok(2)))) { ok = Err(format!("B asking A after A's ask to B had timed out returned {r5:?} (edge A->B left behind?)")); }
    for r in &rs { let _ = r.kill(); }
    let tr = log.lock().unwrap().clone();
    Out { name: "dd_no_residue", ok: ok.is_ok(), detail: ok.err().unwrap_or_default(), trace: tr }
}

/// the first ask of a cycle is parked on a FULL mailbox: the cycle must still be detected
pub async fn cycle_first_edge_parked() -> Out {
    let log: Log = Arc::new(Mutex::new(vec![]));
    let (rs, mut hs) = nodes(2, &log, 1).await;
    let (a, b) = (rs[0].clone(), rs[1].clone());
    // B: busy (sleep 30ms) then, in a second queued message, asks A.  A: asks B while B's mailbox is full.
    b.tell(Chain { path: vec![], timeout_ms: None, sleep_ms: 30 }).await.unwrap();
    tokio::time::sleep(Duration::from_millis(5)).await;
    b.tell(Chain { path: vec![0, 1], timeout_ms: None, sleep_ms: 0 }).await.unwrap(); // fills B's mailbox; will ask A, whose handler asks B
    let a2 = a.clone();
    let entry = tokio::spawn(async move { a2.ask(Chain { path: vec![1], timeout_ms: None, sleep_ms: 0 }).await }); // A asks B: parked on the full mailbox
    let done = tokio::time::timeout(Duration::from_secs(5), entry).await;
    let jb = tokio::time::timeout(Duration::from_secs(5), hs.remove(1)).await;
    let ja = tokio::time::timeout(Duration::from_millis(50), hs.remove(0)).await;
    let mut ok: Result<(), String> = Ok(());
    if done.is_err() { ok = Err("ask cycle A -> B -> A with A's ask parked on B's full mailbox was not detected: still waiting after 5s".into()); }
    if ok.is_ok() && !(panicked(&jb) || panicked(&ja)) { ok = Err("no actor panicked although the asks formed a cycle".into()); }
    for r in &rs { let _ = r.kill(); }
    let tr = log.lock().unwrap().clone();
    Out { name: "dd_cycle_first_edge_parked", ok: ok.is_ok(), detail: ok.err().unwrap_or_default(), trace: tr }
}
