#![allow(dead_code)]
//! BOUNDED STAND-IN (never counted as proof): a deterministic explorer of small client schedules against the
//! real rsactor crate on a paused-clock current_thread runtime, with oracles that are sound for every schedule
//! (they only use facts the run itself establishes: op results, start/end sequence numbers, virtual time).
//! Used when the deductive check cannot bring a changed function within the verifier's reach (exit-2 cases),
//! and in the thorough tier as sampled validation of the shim assumptions.
use rsactor::{spawn_with_mailbox_capacity, Actor, ActorRef, ActorResult, ActorWeak, Error, Message};
use std::cell::RefCell;
use std::rc::Rc;
use std::sync::atomic::{AtomicU64, Ordering};
use std::sync::{Arc, Mutex};
use std::time::Duration;

#[derive(Clone, Debug, PartialEq)]
pub enum Op { Tell { h: u64 }, Ask { h: u64 }, TellT { h: u64, d: u64 }, AskT { h: u64, d: u64 }, Stop, Kill, DropRefs, ErasedTell { h: u64 }, ErasedStop, ErasedKill }

#[derive(Clone, Debug)]
pub struct Step { pub at: u64, pub op: Op }

#[derive(Clone, Debug)]
pub struct Scenario { pub cap: usize, pub on_stop_ms: u64, pub run: Vec<i8>, pub steps: Vec<Step> }

#[derive(Clone, Debug)]
enum Ev { Start, HStart(u32), HEnd(u32), Run(usize), StopStart(bool), StopEnd(bool) }

#[derive(Clone)]
struct Shared { seq: Arc<AtomicU64>, evs: Arc<Mutex<Vec<(u64, u64, Ev)>>>, t0: tokio::time::Instant }
impl Shared {
    fn next(&self) -> u64 { self.seq.fetch_add(1, Ordering::SeqCst) }
    fn now(&self) -> u64 { self.t0.elapsed().as_millis() as u64 }
    fn ev(&self, e: Ev) { let s = self.next(); self.evs.lock().unwrap().push((s, self.now(), e)); }
}

struct P { sh: Shared, run: Vec<i8>, runs: usize, on_stop_ms: u64 }
struct PArgs { sh: Shared, run: Vec<i8>, on_stop_ms: u64 }
impl Actor for P {
    type Args = PArgs;
    type Error = String;
    async fn on_start(a: PArgs, _r: &ActorRef<Self>) -> Result<Self, String> { a.sh.ev(Ev::Start); Ok(P { sh: a.sh, run: a.run, runs: 0, on_stop_ms: a.on_stop_ms }) }
    async fn on_run(&mut self, _w: &ActorWeak<Self>) -> Result<bool, String> {
        let k = self.runs; self.runs += 1;
        self.sh.ev(Ev::Run(k));
        match self.run.get(k).copied() {
            None | Some(0) => Ok(false),
            Some(1) => { tokio::task::yield_now().await; Ok(true) }
            Some(2) => { tokio::time::sleep(Duration::from_millis(15)).await; Ok(true) }
            Some(3) => { std::future::pending::<()>().await; Ok(true) }   // idle processing stays enabled, parked forever
            _ => Err("run-failed".into()),
        }
    }
    async fn on_stop(&mut self, _w: &ActorWeak<Self>, killed: bool) -> Result<(), String> {
        self.sh.ev(Ev::StopStart(killed));
        if self.on_stop_ms > 0 { tokio::time::sleep(Duration::from_millis(self.on_stop_ms)).await; }
        self.sh.ev(Ev::StopEnd(killed));
        Ok(())
    }
}
struct M { id: u32, h: u64 }
impl Message<M> for P {
    type Reply = u32;
    async fn handle(&mut self, m: M, _r: &ActorRef<Self>) -> u32 {
        self.sh.ev(Ev::HStart(m.id));
        if m.h > 0 { tokio::time::sleep(Duration::from_millis(m.h)).await; }
        self.sh.ev(Ev::HEnd(m.id));
        m.id * 10
    }
}

#[derive(Clone, Debug)]
enum Res { TellOk, AskOk(u32), ErrSend, ErrRecv, ErrTimeout, ErrOther(String), CtlOk, CtlErr, NoRef, Pending }

#[derive(Clone, Debug)]
struct Rec { idx: usize, op: Op, id: u32, s_seq: u64, s_t: u64, e_seq: u64, e_t: u64, res: Res }

fn classify<T>(r: Result<T, Error>, ok: impl FnOnce(T) -> Res) -> Res {
    match r { Ok(v) => ok(v), Err(Error::Send { .. }) => Res::ErrSend, Err(Error::Receive { .. }) => Res::ErrRecv, Err(Error::Timeout { .. }) => Res::ErrTimeout, Err(e) => Res::ErrOther(format!("{e}")) }
}

#[cfg(feature = "test-utils")]
fn dl() -> u64 { rsactor::dead_letter_count() }
#[cfg(not(feature = "test-utils"))]
fn dl() -> u64 { 0 }

pub struct Verdict { pub violations: Vec<String>, pub trace: Vec<String> }

pub fn run_scenario(sc: &Scenario) -> Verdict {
    let rt = tokio::runtime::Builder::new_current_thread().enable_all().start_paused(true).build().unwrap();
    let local = tokio::task::LocalSet::new();
    let dl0 = dl();
    let (recs, evs, result_kind, joined) = local.block_on(&rt, async {
        let sh = Shared { seq: Arc::new(AtomicU64::new(1)), evs: Arc::new(Mutex::new(Vec::new())), t0: tokio::time::Instant::now() };
        let (r, h) = spawn_with_mailbox_capacity::<P>(PArgs { sh: sh.clone(), run: sc.run.clone(), on_stop_ms: sc.on_stop_ms }, sc.cap);
        let master: Rc<RefCell<Option<ActorRef<P>>>> = Rc::new(RefCell::new(Some(r)));
        let recs: Rc<RefCell<Vec<Rec>>> = Rc::new(RefCell::new(Vec::new()));
        let mut tasks = Vec::new();
        for (idx, st) in sc.steps.iter().cloned().enumerate() {
            let (sh, master, recs) = (sh.clone(), master.clone(), recs.clone());
            let id = idx as u32 + 1;
            tasks.push(tokio::task::spawn_local(async move {
                tokio::time::sleep(Duration::from_millis(st.at)).await;
                let rf = master.borrow().clone();
                let (s_seq, s_t) = (sh.next(), sh.now());
                let slot = { let mut v = recs.borrow_mut(); v.push(Rec { idx, op: st.op.clone(), id, s_seq, s_t, e_seq: u64::MAX, e_t: u64::MAX, res: Res::Pending }); v.len() - 1 };
                let res = match (&st.op, rf) {
                    (Op::DropRefs, _) => { master.borrow_mut().take(); Res::CtlOk }
                    (_, None) => Res::NoRef,
                    (Op::Tell { h }, Some(r)) => classify(r.tell(M { id, h: *h }).await, |_| Res::TellOk),
                    (Op::Ask { h }, Some(r)) => classify(r.ask(M { id, h: *h }).await, Res::AskOk),
                    (Op::TellT { h, d }, Some(r)) => classify(r.tell_with_timeout(M { id, h: *h }, Duration::from_millis(*d)).await, |_| Res::TellOk),
                    (Op::AskT { h, d }, Some(r)) => classify(r.ask_with_timeout(M { id, h: *h }, Duration::from_millis(*d)).await, Res::AskOk),
                    (Op::Stop, Some(r)) => if r.stop().await.is_ok() { Res::CtlOk } else { Res::CtlErr },
                    (Op::Kill, Some(r)) => if r.kill().is_ok() { Res::CtlOk } else { Res::CtlErr },
                    (Op::ErasedTell { h }, Some(r)) => { let t: Box<dyn rsactor::TellHandler<M>> = r.into(); classify(t.tell(M { id, h: *h }).await, |_| Res::TellOk) }
                    (Op::ErasedStop, Some(r)) => { let c: Box<dyn rsactor::ActorControl> = r.into(); if c.stop().await.is_ok() { Res::CtlOk } else { Res::CtlErr } }
                    (Op::ErasedKill, Some(r)) => { let c: Box<dyn rsactor::ActorControl> = r.into(); if c.kill().is_ok() { Res::CtlOk } else { Res::CtlErr } }
                };
                let (e_seq, e_t) = (sh.next(), sh.now());
                let mut v = recs.borrow_mut();
                v[slot].e_seq = e_seq; v[slot].e_t = e_t; v[slot].res = res;
            }));
        }
        // end of scenario: drop the master reference, give everything ample virtual time
        { let master = master.clone(); tasks.push(tokio::task::spawn_local(async move { tokio::time::sleep(Duration::from_millis(30_000)).await; master.borrow_mut().take(); })); }
        for t in tasks { let _ = tokio::time::timeout(Duration::from_secs(600), t).await; }
        let jr = tokio::time::timeout(Duration::from_secs(600), h).await;
        let (kind, joined) = match jr {
            Ok(Ok(ActorResult::Completed { killed, .. })) => (format!("Completed:{killed}"), true),
            Ok(Ok(ActorResult::Failed { phase, killed, .. })) => (format!("Failed:{phase}:{killed}"), true),
            Ok(Err(e)) => (format!("JoinError:{e}"), true),
            Err(_) => ("never-resolved".to_string(), false),
        };
        let evs = sh.evs.lock().unwrap().clone();
        let recs = recs.borrow().clone();
        (recs, evs, kind, joined)
    });
    let dl1 = dl();
    let mut v: Vec<String> = Vec::new();
    // ---------------------------------------------------------------- oracles
    let hstart = |id: u32| evs.iter().find(|(_, _, e)| matches!(e, Ev::HStart(x) if *x == id)).map(|(s, _, _)| *s);
    let stop_start = evs.iter().find(|(_, _, e)| matches!(e, Ev::StopStart(_))).map(|(s, _, e)| (*s, matches!(e, Ev::StopStart(true))));
    let any_kill = recs.iter().any(|r| matches!(r.op, Op::Kill | Op::ErasedKill) && !matches!(r.res, Res::NoRef));
    let run_err = sc.run.iter().any(|x| *x < 0 || *x > 3);
    // O1 at most once, only sent ids
    for r in &recs { let n = evs.iter().filter(|(_, _, e)| matches!(e, Ev::HStart(x) if *x == r.id)).count(); if n > 1 { v.push(format!("O1 message {} handled {} times", r.id, n)); } }
    for (_, _, e) in &evs { if let Ev::HStart(x) = e { if !recs.iter().any(|r| r.id == *x) { v.push(format!("O1 handler ran for unknown message {x}")); } } }
    // O2 rejected / timed-out tells are never handled; Err(Send) asks neither
    for r in &recs {
        let rejected = match (&r.op, &r.res) {
            (Op::Tell { .. } | Op::TellT { .. } | Op::ErasedTell { .. }, Res::ErrSend | Res::ErrTimeout) => true,
            (Op::Ask { .. } | Op::AskT { .. }, Res::ErrSend) => true,
            _ => false };
        if rejected && hstart(r.id).is_some() { v.push(format!("O2 op#{} {:?} returned {:?} but its message was handled", r.idx, r.op, r.res)); }
    }
    // O10 reply integrity
    for r in &recs { if let Res::AskOk(x) = r.res { if x != r.id * 10 { v.push(format!("O10 ask #{} got reply {x}", r.id)); } if hstart(r.id).is_none() { v.push(format!("O10 ask #{} answered without its handler having run", r.id)); } } }
    // O5 hook order
    if !matches!(evs.first(), Some((_, _, Ev::Start))) { v.push("O5 first hook is not on_start".into()); }
    let stops = evs.iter().filter(|(_, _, e)| matches!(e, Ev::StopStart(_))).count();
    if stops > 1 { v.push(format!("O5 on_stop entered {stops} times")); }
    if let Some((ss, k)) = stop_start {
        if evs.iter().any(|(s, _, e)| *s > ss && matches!(e, Ev::HStart(_) | Ev::Run(_) | Ev::Start)) { v.push("O5 a hook started after on_stop began".into()); }
        if k && !any_kill { v.push("O5 on_stop(killed=true) although kill() was never called".into()); }
        if result_kind.starts_with("Completed:") && result_kind != format!("Completed:{k}") { v.push(format!("O5 result {result_kind} disagrees with on_stop(killed={k})")); }
    }
    if !joined { v.push("O11 JoinHandle never resolved although every reference was dropped".into()); }
    if joined && stops == 0 && !result_kind.starts_with("JoinError") { v.push(format!("O5 actor ended ({result_kind}) without on_stop")); }
    // O11 every op completes
    for r in &recs { if matches!(r.res, Res::Pending) { v.push(format!("O11 op#{} {:?} never completed", r.idx, r.op)); } }
    // O3 accepted before stop()/drop and no kill: handled before on_stop
    if !any_kill && !run_err {
        let first_stop = recs.iter().filter(|r| matches!(r.op, Op::Stop | Op::ErasedStop | Op::DropRefs) && !matches!(r.res, Res::NoRef)).map(|r| r.s_seq).min();
        for r in &recs {
            let accepted = matches!((&r.op, &r.res), (Op::Tell { .. } | Op::TellT { .. } | Op::ErasedTell { .. }, Res::TellOk));
            if accepted && first_stop.map(|fs| r.e_seq < fs).unwrap_or(true) {
                match (hstart(r.id), stop_start) {
                    (None, _) => v.push(format!("O3 tell #{} was accepted (Ok) before any stop/drop but never handled", r.id)),
                    (Some(hs), Some((ss, _))) if hs > ss => v.push(format!("O3 tell #{} handled after on_stop began", r.id)),
                    _ => {}
                }
            }
        }
        // O3b an ask (with or without timeout) that found a free slot for sure was accepted, whatever its caller saw later
        // (e.g. Err(Timeout) while queued behind a busy handler): it must still be handled before on_stop.
        for r in &recs {
            if !matches!(r.op, Op::Ask { .. } | Op::AskT { .. }) || matches!(r.res, Res::NoRef | Res::ErrSend | Res::Pending) { continue; }
            if !first_stop.map(|fs| r.s_seq < fs).unwrap_or(true) { continue; }
            let started_before = recs.iter().filter(|o| o.s_seq < r.s_seq && !matches!(o.res, Res::NoRef) && matches!(o.op, Op::Tell { .. } | Op::Ask { .. } | Op::TellT { .. } | Op::AskT { .. } | Op::ErasedTell { .. })).count() as i64;
            let taken_before = evs.iter().filter(|(sq, _, e)| *sq < r.s_seq && matches!(e, Ev::HStart(_))).count() as i64;
            if started_before - taken_before < sc.cap as i64 {
                match (hstart(r.id), stop_start) {
                    (None, _) => v.push(format!("O3 ask #{} entered the mailbox (a slot was free) before any stop/drop but was never handled (caller saw {:?})", r.id, r.res)),
                    (Some(hs), Some((ss, _))) if hs > ss => v.push(format!("O3 ask #{} handled after on_stop began", r.id)),
                    _ => {}
                }
            }
        }
        // nothing accepted after stop() returned is handled (C02)
        if let Some(st) = recs.iter().filter(|r| matches!(r.op, Op::Stop | Op::ErasedStop) && matches!(r.res, Res::CtlOk)).map(|r| r.e_seq).min() {
            // only sound if the stop marker was really enqueued: the actor stopped by it (killed=false) -- then later sends come behind it
            for r in &recs { if r.s_seq > st && hstart(r.id).is_some() && matches!(stop_start, Some((_, false))) { v.push(format!("O4 message #{} sent after stop() returned was handled", r.id)); } }
        }
    }
    // O4 order: send A completed before send B began => A handled first (both handled)
    for a in &recs { for b in &recs { if a.e_seq < b.s_seq { if let (Some(ha), Some(hb)) = (hstart(a.id), hstart(b.id)) { if ha > hb { v.push(format!("O4 #{} completed before #{} began but was handled after it", a.id, b.id)); } } } } }
    // O6 kill pre-empts: after kill() returned at most one further handler starts
    if let Some(k) = recs.iter().filter(|r| matches!(r.op, Op::Kill | Op::ErasedKill) && matches!(r.res, Res::CtlOk)).map(|r| r.e_seq).min() {
        let already_stopping = stop_start.map(|(ss, _)| ss < k).unwrap_or(false);
        let later = evs.iter().filter(|(s, _, e)| *s > k && matches!(e, Ev::HStart(_))).count();
        if !already_stopping && later > 1 { v.push(format!("O6 {later} handlers started after kill() had returned")); }
        if !already_stopping && !matches!(stop_start, Some((_, true))) && joined && !run_err { v.push("O6 kill() was accepted before the actor began stopping but on_stop(killed=true) did not run".into()); }
    }
    for r in &recs { if matches!(r.op, Op::Kill | Op::ErasedKill | Op::Stop | Op::ErasedStop) && matches!(r.res, Res::CtlErr) { v.push(format!("O6 {:?} returned an error", r.op)); } }
    for r in &recs { if matches!(r.op, Op::Kill | Op::ErasedKill) && r.e_t != r.s_t { v.push("O6 kill() suspended".into()); } }
    // O7 capacity: completed accepts minus taken never exceeds the capacity (sound under-approximation of occupancy)
    {
        let mut pts: Vec<(u64, i64)> = Vec::new();
        for r in &recs {
            let acc = match (&r.op, &r.res) { (Op::Tell { .. } | Op::TellT { .. } | Op::ErasedTell { .. }, Res::TellOk) => true, (Op::Ask { .. } | Op::AskT { .. }, Res::AskOk(_) | Res::ErrRecv) => true, _ => false };
            // an ask completes only after its handler ran: use the handler start as "taken" and the send as accepted no later than that
            if acc { if let Some(hs) = hstart(r.id) { let a = if matches!(r.op, Op::Ask { .. } | Op::AskT { .. }) { hs - 0 } else { r.e_seq.min(hs) }; pts.push((a, 1)); pts.push((hs, -1)); } else if !matches!(r.op, Op::Ask { .. } | Op::AskT { .. }) { pts.push((r.e_seq, 1)); } }
        }
        if let Some(st) = recs.iter().filter(|r| matches!(r.op, Op::Stop | Op::ErasedStop) && matches!(r.res, Res::CtlOk)).min_by_key(|r| r.e_seq) {
            if let Some((ss, false)) = stop_start { if st.e_seq < ss { pts.push((st.e_seq, 1)); pts.push((ss, -1)); } }
        }
        pts.sort();
        let mut occ = 0i64;
        for (_, d) in pts { occ += d; if occ > sc.cap as i64 { v.push(format!("O7 {occ} accepted-but-not-taken messages in a mailbox of capacity {}", sc.cap)); break; } }
    }
    // O8 timeouts: by the deadline, Timeout only at the deadline
    for r in &recs { if let Op::TellT { d, .. } | Op::AskT { d, .. } = r.op { if !matches!(r.res, Res::Pending | Res::NoRef) {
        if r.e_t > r.s_t + d { v.push(format!("O8 {:?} returned {}ms after its start, deadline {}ms", r.op, r.e_t - r.s_t, d)); }
        if matches!(r.res, Res::ErrTimeout) && r.e_t < r.s_t + d { v.push(format!("O8 {:?} timed out early ({}ms)", r.op, r.e_t - r.s_t)); }
    } } }
    for r in &recs { if matches!(r.op, Op::Tell { .. } | Op::Ask { .. } | Op::ErasedTell { .. }) && matches!(r.res, Res::ErrTimeout) { v.push("O8 Timeout from an operation without a timeout".into()); } }
    // O9 dead letters: exactly one per failed delivery
    if cfg!(feature = "test-utils") {
        let failed = recs.iter().filter(|r| matches!(r.res, Res::ErrSend | Res::ErrRecv | Res::ErrTimeout | Res::ErrOther(_))).count() as u64;
        if dl1 - dl0 != failed { v.push(format!("O9 {} dead letters recorded for {} failed deliveries", dl1 - dl0, failed)); }
    }
    // O12 on_run: Ok(false) disables it for good
    { let runs = evs.iter().filter(|(_, _, e)| matches!(e, Ev::Run(_))).count(); let allowed = sc.run.iter().position(|x| *x == 0 || *x < 0 || *x > 3).map(|p| p + 1).unwrap_or(sc.run.len() + 1); if runs > allowed { v.push(format!("O12 on_run body ran {runs} times, script allows {allowed}")); } }
    let mut trace: Vec<String> = evs.iter().map(|(s, t, e)| format!("{s}@{t}ms {e:?}")).collect();
    trace.extend(recs.iter().map(|r| format!("op#{} {:?} id={} start {}@{}ms end {}@{}ms -> {:?}", r.idx, r.op, r.id, r.s_seq, r.s_t, if r.e_seq == u64::MAX { 0 } else { r.e_seq }, if r.e_t == u64::MAX { 0 } else { r.e_t }, r.res)));
    trace.push(format!("result {result_kind}"));
    v.sort(); v.dedup();
    Verdict { violations: v, trace }
}

// ---------------------------------------------------------------------------------- scenario generation
struct Rng(u64);
impl Rng { fn next(&mut self) -> u64 { self.0 ^= self.0 << 13; self.0 ^= self.0 >> 7; self.0 ^= self.0 << 17; self.0 } fn pick<T: Clone>(&mut self, xs: &[T]) -> T { xs[(self.next() % xs.len() as u64) as usize].clone() } }

fn curated() -> Vec<Scenario> {
    use Op::*;
    let s = |cap, on_stop_ms, run: Vec<i8>, steps: Vec<(u64, Op)>| Scenario { cap, on_stop_ms, run, steps: steps.into_iter().map(|(at, op)| Step { at, op }).collect() };
    vec![
        s(1, 0, vec![0], vec![(0, Tell { h: 30 }), (5, Tell { h: 0 }), (6, TellT { h: 0, d: 10 }), (7, AskT { h: 0, d: 10 }), (100, Stop)]),
        s(1, 0, vec![0], vec![(0, Tell { h: 30 }), (5, Tell { h: 0 }), (6, Stop), (7, Tell { h: 0 })]),
        s(2, 0, vec![0], vec![(0, Tell { h: 30 }), (5, Tell { h: 0 }), (5, Tell { h: 0 }), (6, Stop)]),
        s(1, 0, vec![0], vec![(0, Tell { h: 30 }), (5, Tell { h: 0 }), (6, TellT { h: 0, d: 1000 }), (10, Kill)]),
        s(1, 0, vec![0], vec![(0, Tell { h: 30 }), (5, Tell { h: 0 }), (6, AskT { h: 40, d: 50 }), (200, Stop)]),
        s(1, 0, vec![0], vec![(0, Tell { h: 30 }), (5, Tell { h: 0 }), (6, AskT { h: 0, d: 1000 }), (10, Kill)]),
        s(4, 0, vec![0], vec![(0, Tell { h: 30 }), (5, Tell { h: 30 }), (5, Tell { h: 30 }), (5, Ask { h: 0 }), (40, Kill)]),
        s(4, 50, vec![0], vec![(0, Tell { h: 0 }), (5, Stop), (20, Kill)]),
        s(4, 50, vec![0], vec![(0, DropRefs)]),
        s(2, 0, vec![1, 1, 2, 0], vec![(3, Tell { h: 0 }), (3, Tell { h: 0 }), (60, Tell { h: 0 }), (80, ErasedStop)]),
        s(2, 0, vec![1, 9], vec![(1, Tell { h: 0 })]),
        s(2, 0, vec![0], vec![(0, ErasedTell { h: 10 }), (1, Ask { h: 0 }), (2, ErasedKill), (3, Tell { h: 0 })]),
        s(1, 0, vec![0], vec![(0, Tell { h: 5 }), (0, Tell { h: 5 }), (0, Tell { h: 5 }), (1, DropRefs)]),
        s(4, 0, vec![0], vec![(0, Tell { h: 30 }), (5, AskT { h: 0, d: 10 }), (100, Stop)]),
        s(2, 0, vec![3], vec![(0, Tell { h: 0 }), (5, DropRefs)]),
        s(1, 0, vec![0], vec![(0, Tell { h: 5000 }), (5, Tell { h: 0 }), (6, ErasedStop)]),
        s(1, 0, vec![0], vec![(0, Tell { h: 5000 }), (5, Tell { h: 0 }), (6, Stop), (7, TellT { h: 0, d: 45 })]),
        s(2, 0, vec![1, 3], vec![(0, Tell { h: 5 }), (1, Tell { h: 0 }), (2, DropRefs)]),
        s(4, 0, vec![0], vec![(0, Tell { h: 30 }), (5, AskT { h: 0, d: 10 }), (6, Tell { h: 0 }), (20, DropRefs)]),
    ]
}

fn random(rng: &mut Rng) -> Scenario {
    use Op::*;
    let n = 2 + (rng.next() % 4) as usize;
    let mut steps = Vec::new();
    let mut t = 0u64;
    for _ in 0..n {
        t += rng.pick(&[0u64, 0, 1, 5, 35, 70]);
        let h = rng.pick(&[0u64, 0, 0, 30, 30, 5000]);
        let d = rng.pick(&[10u64, 20, 45]);
        let op = match rng.next() % 16 { 0..=3 => Tell { h }, 4..=5 => Ask { h }, 6..=7 => TellT { h, d }, 8..=9 => AskT { h, d }, 10 => Stop, 11 => Kill, 12 => DropRefs, 13 => ErasedTell { h }, 14 => ErasedStop, _ => ErasedKill };
        steps.push(Step { at: t, op });
    }
    Scenario { cap: rng.pick(&[1usize, 1, 2, 3]), on_stop_ms: rng.pick(&[0u64, 0, 40]), run: rng.pick(&[vec![0i8], vec![0], vec![1, 0], vec![2, 1, 0], vec![1, 9], vec![3], vec![1, 3]]), steps }
}

pub fn explore(seed: u64, n: usize) -> (usize, Vec<(Scenario, Verdict)>) {
    let mut rng = Rng(seed.wrapping_mul(0x9E3779B97F4A7C15) | 1);
    let mut bad = Vec::new();
    let mut per_oracle: std::collections::HashMap<String, usize> = std::collections::HashMap::new();
    let mut total = 0;
    let mut all = curated();
    for _ in 0..n { all.push(random(&mut rng)); }
    for sc in all {
        total += 1;
        // watchdog: a scenario that does not finish within 10 s of REAL time (virtual time is paused, so this is a livelock
        // or a hang of the runtime thread) is itself a violation; the stuck thread cannot be cancelled, so exploration stops there
        let (tx, rx) = std::sync::mpsc::channel();
        let sc2 = sc.clone();
        std::thread::spawn(move || { let _ = tx.send(run_scenario(&sc2)); });
        match rx.recv_timeout(Duration::from_secs(10)) {
            Ok(vd) => {
                // keep up to 5 failing schedules PER ORACLE (a change that trips one oracle early must not mask another)
                if !vd.violations.is_empty() {
                    let mut keep = false;
                    for x in &vd.violations {
                        let o = x.split(' ').next().unwrap_or("").to_string();
                        let c = per_oracle.entry(o).or_insert(0usize);
                        if *c < 5 { keep = true; }
                        *c += 1;
                    }
                    if keep { bad.push((sc, vd)); }
                    if bad.len() >= 40 { break; }
                }
            }
            Err(_) => {
                bad.push((sc, Verdict { violations: vec!["O11 the schedule never terminates: an operation or the actor spins/hangs forever (10 s real-time watchdog on a paused-clock run)".into()], trace: vec![] }));
                break;
            }
        }
    }
    (total, bad)
}
