//! Sampled conformance of the shim's assumed contracts (A1-A5) against the REAL tokio in the local registry.
//! Not a proof: it shows the axioms are not contradicted by the dependency on the sampled cases.
use std::time::Duration;
use tokio::sync::{mpsc, oneshot};

pub struct Ax { pub name: &'static str, pub ok: bool, pub detail: String }
fn ax(name: &'static str, r: Result<(), String>) -> Ax { Ax { name, ok: r.is_ok(), detail: r.err().unwrap_or_default() } }

async fn a1_fifo_capacity() -> Result<(), String> {
    for cap in 1..=4usize {
        let (tx, mut rx) = mpsc::channel::<u32>(cap);
        for i in 0..cap as u32 { tx.try_send(i).map_err(|e| format!("cap {cap}: try_send #{i} refused with free slots: {e}"))?; }
        if !matches!(tx.try_send(99), Err(mpsc::error::TrySendError::Full(99))) { return Err(format!("cap {cap}: an extra message was accepted")); }
        // a waiting send suspends while full and completes once a slot frees; order is FIFO
        let tx2 = tx.clone();
        let pending = tokio::spawn(async move { tx2.send(100).await });
        tokio::task::yield_now().await;
        if pending.is_finished() { return Err("send completed on a full channel".into()); }
        if rx.recv().await != Some(0) { return Err("not FIFO".into()); }
        pending.await.unwrap().map_err(|_| "waiting send failed although the receiver is open".to_string())?;
        let mut got = vec![];
        drop(tx);
        while let Some(v) = rx.recv().await { got.push(v); }
        let mut want: Vec<u32> = (1..cap as u32).collect(); want.push(100);
        if got != want { return Err(format!("cap {cap}: drained {got:?}, expected {want:?}")); }
    }
    Ok(())
}
async fn a1_send_err_iff_closed() -> Result<(), String> {
    let (tx, mut rx) = mpsc::channel::<u32>(1);
    rx.close();
    if tx.send(1).await.is_ok() { return Err("send succeeded after close()".into()); }
    if !matches!(tx.try_send(1), Err(mpsc::error::TrySendError::Closed(1))) { return Err("try_send after close is not Closed".into()); }
    if !tx.is_closed() { return Err("is_closed false after close".into()); }
    let (tx, rx) = mpsc::channel::<u32>(1);
    drop(rx);
    if tx.send(1).await.is_ok() { return Err("send succeeded after the receiver was dropped".into()); }
    Ok(())
}
async fn a2_timeout_cancel_safe() -> Result<(), String> {
    let (tx, mut rx) = mpsc::channel::<u32>(1);
    tx.send(1).await.unwrap();
    let r = tokio::time::timeout(Duration::from_millis(10), tx.send(2)).await;
    if r.is_ok() { return Err("send on a full channel completed".into()); }
    if rx.recv().await != Some(1) { return Err("lost message".into()); }
    if rx.try_recv().is_ok() { return Err("a timed-out (cancelled) send was delivered".into()); }
    // timeout polls the inner future first: an immediately ready future wins even with a zero deadline
    if tokio::time::timeout(Duration::ZERO, async { 7 }).await != Ok(7) { return Err("timeout(0, ready) did not return the ready value".into()); }
    Ok(())
}
async fn a3_select_biased_order() -> Result<(), String> {
    let (t1, mut r1) = mpsc::channel::<u32>(1);
    let (t2, mut r2) = mpsc::channel::<u32>(1);
    for _ in 0..50 {
        t1.send(1).await.unwrap(); t2.send(2).await.unwrap();
        let first = tokio::select! { biased; a = r1.recv() => a, b = r2.recv() => b };
        if first != Some(1) { return Err("biased select did not take the first ready branch in textual order".into()); }
        let _ = r2.recv().await;
    }
    // a disabled branch (`, if false`) is never polled
    t1.send(1).await.unwrap();
    let v = tokio::select! { biased; a = r1.recv(), if false => a, b = async { Some(9u32) } => b };
    if v != Some(9) { return Err("a branch with a false precondition fired".into()); }
    Ok(())
}
async fn a4_weak_counting() -> Result<(), String> {
    let (tx, mut rx) = mpsc::channel::<u32>(1);
    let w = tx.downgrade();
    if w.upgrade().is_none() || w.strong_count() != 1 { return Err("upgrade / strong_count with a live sender".into()); }
    let tx2 = tx.clone();
    if w.strong_count() != 2 { return Err("strong_count does not count clones".into()); }
    drop(tx); drop(tx2);
    if w.upgrade().is_some() || w.strong_count() != 0 { return Err("weak sender upgrades after all senders are gone".into()); }
    if rx.recv().await.is_some() { return Err("recv did not report closed although only a WeakSender is left".into()); }
    Ok(())
}
async fn a5_close_on_drop() -> Result<(), String> {
    let (tx, rx) = oneshot::channel::<u32>();
    drop(tx);
    if rx.await.is_ok() { return Err("oneshot receiver completed Ok after the sender was dropped unsent".into()); }
    let (tx, rx) = oneshot::channel::<u32>();
    drop(rx);
    if tx.send(1).is_ok() { return Err("oneshot send succeeded after the receiver was dropped".into()); }
    // dropping an mpsc receiver drops queued messages (and what they own)
    let (otx, orx) = oneshot::channel::<u32>();
    let (tx, rx) = mpsc::channel::<oneshot::Sender<u32>>(1);
    tx.send(otx).await.unwrap();
    drop(rx);
    if orx.await.is_ok() { return Err("a message queued in a dropped mpsc receiver was not dropped".into()); }
    Ok(())
}

pub fn run() -> Vec<Ax> {
    let rt = || tokio::runtime::Builder::new_current_thread().enable_all().start_paused(true).build().unwrap();
    vec![
        ax("A1 bounded FIFO, waiting send, capacity is a hard bound", rt().block_on(a1_fifo_capacity())),
        ax("A1/A5 send fails iff the receiver is closed or dropped", rt().block_on(a1_send_err_iff_closed())),
        ax("A2 timeout cancels a pending send without delivering it; polls the inner future first", rt().block_on(a2_timeout_cancel_safe())),
        ax("A3 select! biased polls in textual order; false preconditions disable a branch", rt().block_on(a3_select_biased_order())),
        ax("A4 WeakSender does not keep the channel open; upgrade iff a strong sender exists", rt().block_on(a4_weak_counting())),
        ax("A5 dropping a receiver drops its queue; dropping an unsent oneshot sender wakes the receiver with Err", rt().block_on(a5_close_on_drop())),
    ]
}
