"""Runs the replay witnesses of /verif/replay (real rsactor from the given repo path + real tokio) for a failed
obligation label and reports whether one of them reproduces a violation on the real code."""
import os, subprocess, json, re, shutil, tempfile

HERE = os.path.dirname(os.path.abspath(__file__))

# label prefix -> scenarios that exercise the behaviour the obligation pins down
FAMILIES = [
    ("lifecycle.", ["lifecycle_basic", "drop_refs", "kill_preempt", "idle_handler", "run_err", "start_fail", "stop_err_on_kill", "hook_panics"]),
    ("handle_message.", ["lifecycle_basic", "ask_reply_integrity", "metrics_counts"]),
    ("tell_with_timeout.", ["timeout_full_mailbox", "sends_to_stopped"]),
    ("ask_with_timeout.", ["timeout_full_mailbox", "sends_to_stopped"]),
    ("tell.", ["sends_to_stopped", "lifecycle_basic", "capacity_bound", "drop_refs"]),
    ("ask.", ["ask_reply_integrity", "sends_to_stopped", "dd_cycles", "dd_no_residue", "dd_cycle_first_edge_parked"]),
    ("ask_join.", ["ask_reply_integrity", "ask_join_outlives_actor"]),
    ("kill.", ["kill_preempt", "sends_to_stopped"]),
    ("stop.", ["lifecycle_basic", "sends_to_stopped", "capacity_bound"]),
    ("record.", ["sends_to_stopped", "timeout_full_mailbox", "blocking_api"]),
    ("blocking_", ["blocking_api"]), ("tell_blocking.", ["blocking_api", "blocking_timeout"]), ("ask_blocking.", ["blocking_api", "blocking_timeout"]),
    ("spawn", ["capacity_bound", "identity_and_liveness", "lifecycle_basic", "kill_preempt"]),
    ("mpsc.channel", ["capacity_bound"]), ("capacity_cell", ["capacity_bound"]), ("set_default_capacity", ["capacity_bound"]),
    ("erased.", ["erased_handles"]),
    ("actor_result.", ["lifecycle_basic", "run_err", "start_fail", "stop_err_on_kill", "kill_preempt"]),
    ("actor_ref.", ["identity_and_liveness", "erased_handles", "metrics_counts"]),
    ("actor_weak.", ["identity_and_liveness", "erased_handles"]),
    ("is_alive.", ["identity_and_liveness", "sends_to_stopped"]),
    ("identity.", ["identity_and_liveness"]),
    ("error.", ["timeout_full_mailbox"]),
    ("metrics.", ["metrics_counts"]),
    ("hook.", ["lifecycle_basic", "dd_cycles"]),
    ("has_path.", ["dd_cycles", "dd_no_residue", "dd_cycle_first_edge_parked"]),
    ("wait_for_guard.", ["dd_no_residue", "dd_cycles"]),
    ("framework.hook_panics_must_propagate", ["hook_panics"]),
    ("framework.no_unexpected_panic", ["ask_reply_integrity", "kill_preempt", "dd_no_residue"]),
    ("mutex.", ["dd_cycles"]),
    ("panic_site.", ["dd_cycles", "dd_no_residue"]),
]
DD = ["dd_cycles", "dd_no_residue", "dd_cycle_first_edge_parked"]


def scenarios_for(label):
    base = label.split("@")[0]
    if base.startswith("auto:"):
        fn = base.split(":")[1].split("::")[-1]
        base = fn + "."
    out = []
    for pre, sc in FAMILIES:
        if base.startswith(pre):
            out += [s for s in sc if s not in out]
    return out


def _crate_for(repo):
    """the replay crate depends on /repo by path; for another repo path use a scratch manifest. -> (crate dir, tmp dir|None)"""
    if os.path.abspath(repo) == "/repo":
        return HERE, None
    tmp = tempfile.mkdtemp(prefix="vx_replay_", dir=os.environ.get("TMPDIR", "/var/tmp"))
    shutil.copytree(os.path.join(HERE, "src"), os.path.join(tmp, "src"))
    man = open(os.path.join(HERE, "Cargo.toml")).read().replace('path = "/repo"', 'path = "%s"' % os.path.abspath(repo))
    open(os.path.join(tmp, "Cargo.toml"), "w").write(man)
    shutil.copy(os.path.join(HERE, "Cargo.lock"), tmp)
    return tmp, tmp


def explore(repo="/repo", seed=1, n=3000, features="test-utils,metrics", timeout=240):
    """BOUNDED stand-in: run the schedule explorer (replay/src/explore.rs) against the real crate."""
    crate, tmp = _crate_for(repo)
    env = dict(os.environ, CARGO_TARGET_DIR=os.path.join(os.path.dirname(HERE), "build", "replay-target"), CARGO_NET_OFFLINE="true")
    try:
        p = subprocess.run(["cargo", "run", "--offline", "-q", "--features", features, "--manifest-path",
                            os.path.join(crate, "Cargo.toml"), "--", "explore", str(seed), str(n)],
                           capture_output=True, text=True, timeout=timeout, env=env)
    except subprocess.TimeoutExpired:
        return {"ran": True, "explored": 0, "violating": [], "hang": True,
                "note": "explorer did not terminate within %d s (a scenario hangs on this tree)" % timeout}
    finally:
        if tmp:
            shutil.rmtree(tmp, ignore_errors=True)
    out = {"ran": False, "explored": 0, "violating": [], "bound": "19 curated + %d seeded-random schedules (seed %d): <=5 client ops, capacity<=3, paused clock" % (n, seed)}
    for line in p.stdout.splitlines():
        line = line.strip()
        if not line.startswith("{"):
            continue
        try:
            d = json.loads(line)
        except ValueError:
            continue
        if "explored" in d:
            out["ran"] = True; out["explored"] = d["explored"]
        elif "violations" in d:
            out["violating"].append(d)
    if not out["ran"]:
        out["note"] = "explorer failed to build/run on this tree: " + p.stderr[-1500:]
        out["build_failed"] = p.returncode != 0 and "error" in p.stderr
    return out


def run_for_label(pid, label, repo="/repo"):
    sc = scenarios_for(label)
    if not sc:
        return {"reproduced": False, "scenarios": [], "note": "no replay witness is registered for this obligation"}
    return run_scenarios(sc, repo)


def run_scenarios(sc, repo="/repo"):
    # the crate depends on /repo by path; for another repo path use a scratch manifest
    crate = HERE
    tmp = None
    if os.path.abspath(repo) != "/repo":
        tmp = tempfile.mkdtemp(prefix="vx_replay_", dir=os.environ.get("TMPDIR", "/var/tmp"))
        shutil.copytree(os.path.join(HERE, "src"), os.path.join(tmp, "src"))
        man = open(os.path.join(HERE, "Cargo.toml")).read().replace('path = "/repo"', 'path = "%s"' % os.path.abspath(repo))
        open(os.path.join(tmp, "Cargo.toml"), "w").write(man)
        shutil.copy(os.path.join(HERE, "Cargo.lock"), tmp)
        crate = tmp
    env = dict(os.environ, CARGO_TARGET_DIR=os.path.join(os.path.dirname(HERE), "build", "replay-target"), CARGO_NET_OFFLINE="true")
    try:
        feats = "test-utils,metrics" + (",deadlock-detection" if any(x.startswith("dd_") for x in sc) else "")
        p = subprocess.run(["cargo", "run", "--offline", "-q", "--features", feats, "--manifest-path",
                            os.path.join(crate, "Cargo.toml"), "--"] + sc, capture_output=True, text=True, timeout=600, env=env)
    except subprocess.TimeoutExpired:
        return {"reproduced": True, "scenarios": sc, "note": "replay scenarios did not terminate within 600 s on this tree (a hang is itself a failing behaviour)"}
    finally:
        if tmp:
            shutil.rmtree(tmp, ignore_errors=True)
    results = []
    for line in p.stdout.splitlines():
        line = line.strip()
        if line.startswith("{"):
            try:
                results.append(json.loads(line))
            except ValueError:
                pass
    failing = [r for r in results if not r.get("ok")]
    out = {"reproduced": bool(failing), "scenarios": sc, "failing": failing[:3],
           "passed": [r["scenario"] for r in results if r.get("ok")]}
    if p.returncode != 0 and not results:
        out["note"] = "replay crate failed to build/run: " + p.stderr[-800:]
    elif p.returncode != 0:
        out["reproduced"] = True
        out["note"] = "replay process aborted (panic / abnormal exit): " + p.stderr[-600:]
    return out


if __name__ == "__main__":
    import sys
    print(json.dumps(run_for_label(sys.argv[1], sys.argv[2], sys.argv[3] if len(sys.argv) > 3 else "/repo"), indent=1)[:3000])
