#!/bin/sh
# usage: tools/try_benign.sh <patch> [repo-path] : apply a behaviour-preserving patch to the repo (default /repo; a scratch worktree for
# parallel runs), run every quick check, report alarms / undecided, undo
P="$1"; R="${2:-/repo}"
git -C $R apply "$P" || { echo "patch does not apply: $P"; exit 3; }
V=0; U=0
for c in C01 C02 C03 C04 C05 C06 C07 C08 C09 C10 C11 C12 C13 C14 C15 C16 C17 C18 C20; do
  out=$(/verif/check $c --repo $R 2>&1 | grep -v "^KNOWN"); rc=$?
  if echo "$out" | grep -q "^VIOLATION"; then V=$((V+1)); echo "FALSE ALARM $c: $(echo "$out" | grep '^VIOLATION' | head -2 | cut -c1-200)"; fi
  if echo "$out" | grep -q "^UNDECIDED"; then U=$((U+1)); echo "undecided $c: $(echo "$out" | grep '^UNDECIDED' | head -1 | cut -c1-220)"; fi
done
echo "== $P: false alarms=$V undecided=$U"
git -C $R checkout -- .
