#!/bin/sh
# usage: tools/try_seeded.sh <patch.diff> <Cxx> [<Cyy> ...]   -- apply to /repo, run checks, undo
set -u
P="$1"; shift
git -C /repo apply "$P" || { echo "patch does not apply"; exit 3; }
for c in "$@"; do /verif/check "$c" 2>&1 | grep -v "^KNOWN-FINDING" | cut -c1-220; echo "  -> rc=$? ($c)"; done
git -C /repo checkout -- . ; git -C /repo status --short | head -3
