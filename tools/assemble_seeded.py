#!/usr/bin/env python3
"""Assemble /verif/seeded/<id>/ from the artefacts delivered by the independent sub-agents (patch.diff, demo, NOTES.md),
my own confirmation runs (tools/confirm_seed.sh) and the result of running the checks against each change."""
import os, json, shutil, re, sys
SRC = "/var/tmp/seedsrc"
OUT = "/verif/seeded"
conf = {}
for f in ("/var/tmp/confirm_all.txt", "/var/tmp/confirm_all2.txt", "/var/tmp/confirm_all3.txt", "/var/tmp/confirm_all4.txt", "/var/tmp/confirm_all5.txt", "/var/tmp/confirm_all6.txt", "/var/tmp/confirm_all7.txt", "/var/tmp/confirm_all8.txt", "/var/tmp/confirm_all9.txt"):
    if os.path.exists(f):
        for line in open(f):
            m = re.match(r"(\S+) suite_with_change_rc=(\d+) failed_targets=(\d+) demo_with_change_rc=(\d+) demo_without_change_rc=(\d+)", line)
            if m:
                conf[m.group(1)] = dict(suite_rc=int(m.group(2)), failed_targets=int(m.group(3)), demo_with=int(m.group(4)), demo_without=int(m.group(5)))
T = {  # id: (property, needs to manifest, demo features, caught by)
 "C01": ("C01", "ask_with_timeout expires (or the ask future is dropped) while its message is still queued behind a busy handler, then graceful stop / last ref dropped", "-", "undecided by extraction (oneshot Sender::is_closed in handle_message) -> bounded stand-in: explorer oracle O3 (accepted ask never handled)"),
 "C01b": ("C01", "stop() called at an instant when the mailbox is exactly full (try_send Full -> kill)", "-", "deductive: stop.relation (R_stop: one waiting enqueue of the marker, no control-channel effect); failing input found by the explorer"),
 "C02": ("C02", "stop() on a full mailbox returns at once and a later send overtakes the stop marker", "-", "undecided by extraction (runtime Handle / spawn of a closure) -> bounded stand-in: explorer O4/O7"),
 "C03": ("C03", "an ask blocked on a full mailbox at the moment the actor ends spins forever (send_timeout Closed retried)", "-", "undecided by extraction (send_timeout, new helper) -> bounded stand-in: explorer watchdog O11"),
 "C03b": ("C03", "an ask parked in send on a full mailbox when the actor ends keeps the rejected envelope (and its reply sender) alive: hangs", "-", "deductive: ask.relation (Err(Send) path must return, log shape) ; failing input found by the explorer"),
 "C04": ("C04", "kill() lands while on_stop(false) of a graceful stop is suspended: on_stop runs twice", "-", "undecided by extraction (select! over a pinned future) -> bounded stand-in: explorer O5"),
 "C05": ("C05", "kill() lands while on_stop(false) is suspended; leftover signal drained after the loop sets killed=true in the result", "-", "deductive: lifecycle.post.result_matches_history"),
 "C06": ("C06", "backlog of >=2 messages, kill during a non-last handler of a recv_many batch", "-", "undecided by extraction (recv_many) -> bounded stand-in: explorer O6"),
 "C06b": ("C06", "kill() then all strong refs dropped before the actor reaches the select: control branch disabled by `if actor_weak.is_alive()`", "-", "deductive: lifecycle.select.inv.guard_is_flag (control and mailbox branches are unconditional); failing input found by the explorer"),
 "C07": ("C07", "stop() on a full mailbox falls back to a ControlSignal::Stop on the control channel: accepted work is discarded", "-", "deductive: lifecycle.post.result_matches_history / loop_exit (a consumed control signal must mean killed=true); failing input found by the explorer"),
 "C08": ("C08", "64 envelopes handled since on_run last completed while on_run is parked: mailbox branch disabled by a budget guard", "-", "deductive: lifecycle.select.inv.guard_is_flag"),
 "C09": ("C09", "stop() on an exactly full mailbox is handed to a spawned task and returns: capacity+1 accepted-but-not-taken", "-", "undecided by extraction -> bounded stand-in: explorer O7"),
 "C10": ("C10", "ask_with_timeout on a full mailbox: timer restarts after the enqueue, returns late / Ok after the deadline", "-", "undecided by extraction (new helpers, new struct) -> bounded stand-in: explorer O8"),
 "C11": ("C11", "truly parallel spawns: load / checked_add / store instead of fetch_add hands out duplicate ids", "-", "deductive: spawn.identity_fresh, spawn.effects_exactly"),
 "C12": ("C12", "a genuine cycle kills B but leaves B->A in the global graph (insert before the check, guard after): later asks get bogus deadlock panics", "deadlock-detection", "deductive: ask.deadlock_panic.leaves_graph_as_found (and ask.relation under C14/C15)"),
 "C13": ("C13", "sender parked on a full mailbox when the actor dies: send_timeout Closed arm returns Error::Send without a dead letter", "test-utils", "undecided by extraction (send_timeout) -> bounded stand-in: explorer O9"),
 "C13b": ("C13", "tell alive at entry, mailbox closes while the send is parked: Error::Send with zero dead letters (record moved under an up-front is_alive check)", "test-utils", "deductive: tell.relation; failing input found by the explorer"),
 "C14": ("C14", "first ask of a cycle parked on a full mailbox: edge inserted only after the send completes, cycle not detected", "deadlock-detection", "deductive: ask.relation (check-then-insert under one lock acquisition before the send); witness dd_cycle_first_edge_parked reproduces"),
 "C15": ("C15", "one handler with two overlapping asks, the earlier one ends first: the later guard re-inserts the finished ask's edge", "deadlock-detection", "deductive: wait_for_guard.drop.removes_exactly_its_edge_and_unlocks"),
 "C16": ("C16", "erased WeakTellHandler::upgrade filtered by is_alive: None where ActorWeak::upgrade gives Some (actor ended, another strong ref alive)", "-", "deductive: erased.weak_tell_handler.upgrade.same_relation (after adding the Option::filter unfolding rule; before that: undecided)"),
 "C17": ("C17", "blocking_tell(Some) on a full mailbox reports Timeout but the helper thread still delivers the message later", "-", "not under contract (std::thread + nested runtime) -> always-on bounded scenario blocking_timeout"),
 "C18": ("C18", "with `tracing`: on_tell_result called when an ask's reply cannot be delivered (asker gone)", "tracing", "deductive (tracing feature set): handle_message.ask_reply_is_this_handlers_value"),
 "C02s": ("C02", "backlog: actor busy in a handler while the stop marker and later sends are accepted; the marker only closes the receiver and the loop drains what is behind it", "-", "deductive: lifecycle.inv.monitor_at_head (a stop marker must lead to on_stop, not back to the loop head); failing input found by the explorer"),
 "C04s": ("C04", "on_run returns Err and the following on_stop(false) returns Err: a second on_stop(true) is made", "-", "deductive: lifecycle.post.result_matches_history (nothing is accepted after Stopped)"),
 "C05s": ("C05", "all references dropped (not kill) and on_stop returns Err: result reports killed=true", "-", "deductive: lifecycle.post.result_matches_history (killed must equal the monitor's flag)"),
 "C07s": ("C07", "last external reference dropped while on_run has not yet returned Ok(false): the lifecycle keeps its own strong reference until then", "-", "deductive: lifecycle.inv.strong_ref_released; failing input found by the explorer (parked on_run, O11)"),
 "C09s": ("C09", "a capacity that is not a power of two (3, 5, 6, 1000): channel created with next_power_of_two()", "-", "deductive: spawn.mailbox_bound_is_exactly_requested_capacity (explorer O7 also reproduces it with capacity 3)"),
 "C10s": ("C10", "blocking_ask with Some(d), d < 1 ms: dispatched to the no-timeout variant", "-", "deductive: blocking_ask.some_goes_to_timeout_impl_with_d (after adding Duration::as_millis to the shim; before: undecided)"),
 "C11s": ("C11", "upgrade() after the actor ended while a strong reference is still held: returns None although the strong count is positive", "-", "deductive: actor_weak.upgrade.some_iff_both_senders_upgrade"),
 "C16s": ("C16", "erased WeakActorControl::is_alive after the actor ended with a strong ref still held: computed via upgrade + ActorRef::is_alive", "-", "deductive: erased.weak_control.is_alive.same_relation"),
 "C08t": ("C08", "a message or kill arrives exactly while on_run is parked at an await: the on_run branch awaits on_run to completion inside its handler", "-", "undecided by extraction (select! branch `async {}`) -> bounded stand-in: explorer with a parked on_run script (O3/O6/O11)"),
 "C12t": ("C12", "deadlock panic in a cycle of >= 3 actors removes the callee's live edge; a survivor's later ask then hangs undetected", "deadlock-detection", "deductive: ask.deadlock_panic.leaves_graph_as_found"),
 "C13t": ("C13", "reply dropped because the actor went away (killed while the ask is queued, handler panic): dead letter says 'actor stopped' while the error is Receive", "test-utils", "deductive: ask.relation (reason must match the error)"),
 "C14t": ("C14", "on_run fails and the cleanup on_stop asks a peer that asks back: that on_stop call site is no longer inside the task-local scope", "deadlock-detection", "deductive: hook.inside_actor_scope (precondition of on_stop at that call site)"),
 "C15t": ("C15", "ask cancelled by its timeout while still blocked in the send on a full mailbox: guard created only after the send, edge left behind", "deadlock-detection", "deductive: ask.relation (after adding the Option::map(path) unfolding; before: undecided)"),
 "C17t": ("C17", "deprecated ask_blocking alias with Some(short timeout) and a slow handler: now honours the timeout", "-", "deductive: ask_blocking.alias_ignores_timeout"),
 "C18t": ("C18", "with deadlock-detection: the guard removes the callee's key, a completed A->B ask leaves its edge; a later B->A ask panics although no cycle exists", "deadlock-detection", "deductive (deadlock-detection feature sets): ask.relation; witness dd_no_residue reproduces"),
 "C20t": ("C20", "handle derived by downgrade -> ActorWeak::clone -> upgrade gets a fresh collector", "metrics", "deductive: actor_weak.clone.shares_collector (after the scratch-world rule for effects inside a pure-contracted fn; before: undecided)"),
 "C01u": ("C01", "two sites: stop() waits at most 3 s for a slot (then Err), and the erased ActorControl::stop escalates an Err to kill(): stop through the trait object on a full mailbox behind a slow handler discards accepted work", "-", "deductive: stop.relation and erased.control.stop.same_relation (after adding Duration::from_secs to the shim; before: undecided); failing input found by the explorer (5 s handler schedule)"),
 "C03u": ("C03", "two sites: on kill the loop answers queued asks with a sentinel box, and ask turns a failed downcast into unreachable!(): an ask queued at kill panics its caller instead of returning Err", "-", "deductive: framework.no_unexpected_panic (functions under contract may only panic where the contract says so); failing input found by the explorer"),
 "C06u": ("C06", "two sites: the loop closes the control channel as soon as a kill is consumed, and kill() returns Err on Closed unless the mailbox is closed too: a second kill during a slow on_stop(true) fails", "-", "deductive: kill.relation (Ok for Ok/Full/Closed)"),
 "C07u": ("C07", "two sites: the stop marker only closes the receiver and the loop drains, and stop() falls back to kill() when the mailbox is closed: a second stop() while buffered work drains ends the actor with killed=true", "-", "deductive: stop.relation and the lifecycle monitor"),
 "C11u": ("C11", "two sites: ActorWeak::is_alive computed via upgrade + ActorRef::is_alive, and the erased WeakActorControl::upgrade gated on it: None after the actor ended although a strong ref is held", "-", "deductive: actor_weak.is_alive.iff_both_strong_counts_positive, erased.weak_control.upgrade.same_relation"),
 "C13u": ("C13", "two sites: blocking_tell's helper thread calls tell_with_timeout (records Timeout/'tell'), and the dispatcher relabels + records again: two dead letters for one blocking timeout", "test-utils", "code not under contract -> always-on bounded scenario blocking_timeout (dead-letter delta)"),
 "C02v": ("C02", "mailbox exactly full when the loop dequeues, a tell ahead of an ask in the backlog: the backlog is pulled into a local queue and sorted asks-first", "-", "undecided by extraction (new helper, VecDeque) -> bounded stand-in: explorer O4 (order)"),
 "C04v": ("C04", "kill() lands while a handler is running: after the handler a try_recv sees the signal, sets killed and breaks - on_stop never runs", "-", "deductive: lifecycle.loop_exit.stopped_ok (the loop may only be left through Stopped); failing input found by the explorer"),
 "C05v": ("C05", "on_run returns Err and the cleanup on_stop PANICS: catch_unwind turns the panic into a normal Failed{OnRunThenOnStop} result", "-", "deductive: framework.hook_panics_must_propagate (catch_unwind has an unsatisfiable precondition in the shim) and lifecycle.post; witness hook_panics reproduces (added after this change first came back undecided)"),
 "C08v": ("C08", "on_run tells its own actor right before returning Ok(false): `idle_enabled = !receiver.is_empty()` keeps idle processing armed and on_run runs again", "-", "deductive: lifecycle.inv.monitor_at_head (after adding Receiver::is_empty to the shim; before: undecided)"),
 "C10v": ("C10", "tell_with_timeout on a full mailbox, actor dies before the deadline: send_timeout's Closed is reported as Timeout (retryable, early)", "-", "undecided by extraction (send_timeout) -> bounded stand-in: explorer O8/O9"),
 "C16v": ("C16", "TellHandler::tell_with_timeout with Duration::ZERO on a full mailbox: routed to the unbounded tell", "-", "deductive: erased.tell_with_timeout.same_relation_as_inherent"),
 "C20": ("C20", "handler panics / task aborted while the handler is suspended: inline timing after the handler instead of the RAII guard loses the count", "metrics", "deductive: lifecycle.inv.metrics_guard_closed (guard must be opened before the handler)"),
 # ---- round 7: a bug hidden inside a refactoring
 "C01w": ("C01", "blocking_tell(Some(d)) on a full mailbox: merged helper moves the deadline to the caller side (recv_timeout); Timeout is reported but the helper thread still delivers the message", "-", "bounded stand-in (always on for C01/C10/C17): scenario blocking_timeout - the changed code (blocking_*_with_timeout_impl) is not under contract"),
 "C04w": ("C04", "last reference dropped: on_stop call sites merged behind enum StopCause whose Terminate variant is always 'forced': on_stop(killed=true) without a kill", "-", "undecided deductively (new enum / helper with early exits) -> bounded stand-in: explorer O5"),
 "C07w": ("C07", "stop() on a full mailbox: kill()/stop() outcome handling merged, stop() now uses try_send and the Full arm returns Ok - the marker is dropped, the actor never ends", "-", "deductive: stop.relation (a waiting send, never TryFull)"),
 "C12w": ("C12", "a detected deadlock panics while the wait-for lock guard is alive (drop(graph) lost when format_cycle_path was inlined into panic!): the mutex is poisoned for every later ask", "deadlock-detection", "undecided deductively (registration moved into a new associated fn with early exits) -> bounded stand-in: dd scenarios"),
 "C09w": ("C09", "spawn() before the first set_default_mailbox_capacity: default lookup extracted into a helper that uses get_or_init - a read that writes 32 into the OnceLock, the first real configuration fails", "-", "deductive: spawn_default.effects_exactly / mailbox_bound (helper inlined by rule R12; OnceLock::get_or_init added to the shim as a read that writes)"),
 "C10w": ("C10", "ask_with_timeout under back-pressure: send_timeout(d) for the send, then d again for the reply - up to 2d", "-", "undecided deductively (send_timeout, new helpers) -> bounded stand-in: explorer O8 / blocking_timeout"),
 "C13w": ("C13", "tell_with_timeout: `.unwrap_or(Err(self.timed_out(..)))` evaluates its argument eagerly - a Timeout dead letter on every call, including successful ones", "test-utils", "deductive: tell_with_timeout.dead_letters (helper inlined by R12)"),
 "C17w": ("C17", "tell_blocking / ask_blocking (deprecated aliases that must ignore their timeout) now forward it: Timeout on a full mailbox instead of waiting", "-", "deductive: tell_blocking.alias_ignores_timeout, ask_blocking.alias_ignores_timeout (renamed private fns no longer make the unit unextractable); witness blocking_timeout reproduces"),
 "C14w": ("C14", "asks made from on_stop: the three on_stop call sites go through a helper that lost the run_with_actor_scope! wrapper - untracked, cycles through them hang", "deadlock-detection", "deductive: hook.inside_actor_scope (precondition of on_stop; helper inlined by R12)"),
 "C15w": ("C15", "WaitForGuard built with the callee's id instead of the caller's: Drop removes the wrong key, the edge stays, a later reverse ask panics with a false deadlock", "deadlock-detection", "undecided deductively (registration moved into WaitForGuard::enter) -> bounded stand-in: dd scenarios (dd_no_residue)"),
 "C16w": ("C16", "timed-out tell/ask through a boxed handler: *_with_timeout become provided trait methods over tell/ask + a deadline helper - Error::Timeout is reproduced, the dead letter is not", "test-utils", "undecided deductively: the R4 guard refuses a future passed to a helper (before the guard this text VERIFIED - a soundness hole closed by this seed) -> bounded stand-in: scenario erased_handles (now checks dead letters of timed-out erased sends)"),
 "C20w": ("C20", "graceful stop: the metrics guard hoisted above `match maybe_message` is created for the stop marker too - message_count + 1 and on_stop time in the averages", "metrics", "undecided deductively (guard wrapped in Option::map) -> bounded stand-in: scenario metrics_counts"),
 # ---- round 8: less-travelled corners (accessors, errors, cfg-gated code, metrics) and "performance improvements"
 "C05x": ("C05", "Failed{actor: Some(..)}: into_actor() rewritten as to_result().ok() returns None although the actor is there", "-", "deductive: actor_result.into_actor.agrees_with_fields"),
 "C10x": ("C10", "blocking_*(Some(d)) to a stopped actor / dropped reply: nested result flattened with .ok().and_then(Result::ok) - the inner Send/Receive error is reported as Timeout", "-", "bounded stand-in (always on): scenario blocking_timeout (the stopped-actor check now also speaks for C10); the changed code is not under contract"),
 "C18x": ("C18", "with deadlock-detection: registration moved to lib.rs::register_wait, guard built with the callee's id - the edge stays, a later reverse ask panics with a false deadlock", "deadlock-detection", "undecided deductively (proof-hint anchor moved into a helper of ANOTHER file) -> bounded stand-in: dd scenarios, now also registered for C18 (run with the features enabled)"),
 "C20x": ("C20", "graceful stop: timing guard created before `match maybe_message` - the stop marker is counted, on_stop time feeds max/avg", "metrics", "deductive: lifecycle.inv.metrics_guard_closed"),
 "C20y": ("C20", "handler longer than one second: record_message computes as_secs()*1_000_000 + subsec_nanos() (micros for nanos)", "metrics", "deductive: metrics.record.total_saturating_add (after adding Duration::subsec_* to the shim; before: undecided, missed)"),
 "C02x": ("C02", "stop() on a full mailbox returns at once and queues the marker from a spawned task: a later tell overtakes it", "-", "undecided deductively (tokio::spawn of a closure) -> bounded stand-in: explorer O4"),
 "C03x": ("C03", "ask_join races the JoinHandle against sender.closed(): actor stopped after replying -> task aborted, fabricated Err(Receive)", "-", "undecided deductively (select! over a pinned handle) -> bounded stand-in: new scenario ask_join_outlives_actor (before: missed)"),
 "C06x": ("C06", "kill() while a backlog is queued: control branch guarded by `!receiver.is_empty()` - the backlog is drained first", "-", "deductive: lifecycle.select.inv.control_branch_unconditional; witness reproduces"),
 "C08x": ("C08", "on_run returned Ok(false); a burst of tells then a drained mailbox: `idle_enabled = true` on resume forgets it", "-", "deductive: lifecycle.select.inv.idle_flag_tracks_ok_false; witness reproduces"),
 "C11x": ("C11", "two threads spawn concurrently: thread-local id blocks computed as block+1 instead of block*64+1 overlap", "-", "undecided deductively (thread_local!, new statics) -> bounded stand-in: scenario identity_and_liveness (16 threads)"),
 # ---- round 9: one-token edits
 "C04z": ("C04", "on_run returns Err: the cleanup call is on_stop(&actor_weak, true) - killed=true without a kill", "-", "deductive: lifecycle.post.no_violation_recorded.C04 (monitor reason W_KILLED_FLAG); witness reproduces"),
 "C07z": ("C07", "stop() on a full mailbox: try_send for send().await - Ok is returned, nothing is queued, the actor never stops", "-", "deductive: stop.relation (a waiting send, never TryFull)"),
 "C09z": ("C09", "mpsc::channel(mailbox_capacity + 1): one more message than the bound is accepted", "-", "deductive: spawn.mailbox_bound_is_exactly_requested_capacity; witness reproduces"),
 "C12z": ("C12", "graph.insert moved above the cycle check: the panicking asker leaves its edge behind; a bystander later gets a false deadlock panic", "deadlock-detection", "deductive: ask.deadlock_panic.leaves_graph_as_found"),
 "C14z": ("C14", "WaitForGuard(callee.id) for caller.id: finishing an ask erases the callee's own in-flight edge, a later genuine cycle is missed", "deadlock-detection", "deductive: ask.relation (blamed on C14/C15 only: the relation still holds with the wait-for alphabet erased); witness reproduces"),
 "C16z": ("C16", "AskHandler::blocking_ask forwards None for its timeout", "-", "deductive: erased.blocking_ask.some_keeps_its_timeout"),
 "C17z": ("C17", "tell_blocking (deprecated, must ignore its timeout) forwards it", "-", "deductive: tell_blocking.alias_ignores_timeout; witness blocking_timeout reproduces"),
}
os.makedirs(OUT, exist_ok=True)
for sid, (prop, needs, feats, caught) in sorted(T.items()):
    s = os.path.join(SRC, sid)
    if not os.path.exists(os.path.join(s, "patch.diff")):
        print("missing", sid); continue
    c = conf.get(sid)
    if not c:
        print("not yet confirmed:", sid); continue
    ok = c["suite_rc"] == 0 and c["failed_targets"] == 0 and c["demo_with"] != 0 and c["demo_without"] == 0
    if not ok:
        print("NOT CONFIRMED (dropped):", sid, c); continue
    d = os.path.join(OUT, sid)
    os.makedirs(d, exist_ok=True)
    shutil.copy(os.path.join(s, "patch.diff"), d)
    shutil.copy(os.path.join(s, "tests", "seeded_demo.rs"), os.path.join(d, "seeded_demo.rs"))
    if os.path.exists(os.path.join(s, "NOTES.md")):
        shutil.copy(os.path.join(s, "NOTES.md"), os.path.join(d, "AUTHOR_NOTES.md"))
    fe = "" if feats == "-" else " --features " + feats
    meta = {
        "id": sid, "breaks_property": prop,
        "origin": "independent sub-agent given only the property text and its own scratch worktree (nothing from /verif)",
        "needs_to_manifest": needs,
        "confirmed_by_me": {
            "how": "tools/confirm_seed.sh: fresh scratch worktree of /repo HEAD under /var/tmp, git apply patch.diff (no git stash)",
            "cargo test --workspace --no-fail-fast --offline (with change, demo not present)": "rc=%d, failed targets=%d" % (c["suite_rc"], c["failed_targets"]),
            "cargo test --offline%s --test seeded_demo (with change)" % fe: "rc=%d (fails as intended)" % c["demo_with"],
            "cargo test --offline%s --test seeded_demo (without change)" % fe: "rc=%d (passes)" % c["demo_without"],
        },
        "demo": "seeded_demo.rs (copy to tests/seeded_demo.rs of a checkout%s)" % ("; needs" + fe if fe else ""),
        "check_run": "git -C /repo apply seeded/%s/patch.diff; ./check %s; git -C /repo checkout -- ." % (sid, prop),
        "caught_by": caught,
    }
    json.dump(meta, open(os.path.join(d, "meta.json"), "w"), indent=1)
    print("kept", sid)

# ---- README table
rows = []
for sid in sorted(os.listdir(OUT)):
    mp = os.path.join(OUT, sid, "meta.json")
    if os.path.exists(mp):
        m = json.load(open(mp))
        rows.append("| %s | %s | %s | %s |" % (sid, m["breaks_property"], m["needs_to_manifest"], m["caught_by"]))
open(os.path.join(OUT, "README.md"), "w").write(
    "# Seeded breaking changes\n\nEach directory holds a change to hiking90/rsactor written by an independent sub-agent that saw only the property text "
    "(patch.diff), its demonstration (seeded_demo.rs: fails with the change, passes without), the author's notes and meta.json "
    "(what it needs to manifest, my own confirmation runs, which check catches it). None of them is ever committed to /repo.\n\n"
    "Run one:  `git -C /repo apply seeded/<id>/patch.diff; ./check <property>; git -C /repo checkout -- .`\n\n"
    "| id | property | needs to manifest | caught by |\n|---|---|---|---|\n" + "\n".join(rows) + "\n")
print("README rows:", len(rows))
