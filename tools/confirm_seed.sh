#!/bin/sh
# usage: tools/confirm_seed.sh <worktree> <features-for-demo or ->  : confirms a seeded change (suite green with change, demo fails with / passes without)
W="$1"; F="$2"
cd "$W" || exit 2
export CARGO_TARGET_DIR=/var/tmp/seed_target
FE=""; [ "$F" != "-" ] && FE="--features $F"
mv tests/seeded_demo.rs /var/tmp/seeded_demo.rs.$$ 
cargo test --workspace --no-fail-fast --offline >/var/tmp/suite.$$ 2>&1; S1=$?
FAILS=$(grep -c "^test result: FAILED" /var/tmp/suite.$$)
mv /var/tmp/seeded_demo.rs.$$ tests/seeded_demo.rs
cargo test --offline $FE --test seeded_demo >/var/tmp/demo_with.$$ 2>&1; D1=$?
git stash push -q -- src
cargo test --offline $FE --test seeded_demo >/var/tmp/demo_without.$$ 2>&1; D2=$?
git stash pop -q
echo "$W suite_rc=$S1 failed_targets=$FAILS demo_with_change_rc=$D1 demo_without_change_rc=$D2"
rm -f /var/tmp/suite.$$ /var/tmp/demo_with.$$ /var/tmp/demo_without.$$
