#!/bin/sh
# usage: tools/confirm_seed.sh <id> <dir with patch.diff and tests/seeded_demo.rs> <features-for-demo or ->
# Confirms a seeded change in a fresh scratch worktree WITHOUT git stash (the stash stack is shared between worktrees):
# suite green with the change, demo fails with it and passes without it.
ID="$1"; SRC="$2"; F="$3"
W=/var/tmp/seedchk_$ID
git -C /repo worktree remove --force $W 2>/dev/null; rm -rf $W
git -C /repo worktree add -q --detach $W HEAD || exit 2
cd $W || exit 2
export CARGO_TARGET_DIR=/var/tmp/seed_target
FE=""; [ "$F" != "-" ] && FE="--features $F"
git apply "$SRC/patch.diff" || { echo "$ID patch does not apply"; exit 3; }
cargo test --workspace --no-fail-fast --offline >/var/tmp/suite_$ID.log 2>&1; S1=$?
FAILS=$(grep -c "^test result: FAILED" /var/tmp/suite_$ID.log)
cp "$SRC/tests/seeded_demo.rs" tests/seeded_demo.rs
cargo test --offline $FE --test seeded_demo >/var/tmp/demo_with_$ID.log 2>&1; D1=$?
git apply -R "$SRC/patch.diff"
cargo test --offline $FE --test seeded_demo >/var/tmp/demo_without_$ID.log 2>&1; D2=$?
echo "$ID suite_with_change_rc=$S1 failed_targets=$FAILS demo_with_change_rc=$D1 demo_without_change_rc=$D2"
cd /; git -C /repo worktree remove --force $W; rm -rf $W
