#!/usr/bin/env python3
"""Regenerate MANIFEST.json from contracts/claims.py (kept in one place so it is always valid)."""
import json, os, sys
HERE = os.path.dirname(os.path.dirname(os.path.abspath(__file__)))
import importlib.util
sp = importlib.util.spec_from_file_location("claims", os.path.join(HERE, "contracts", "claims.py"))
m = importlib.util.module_from_spec(sp); sp.loader.exec_module(m)
props = [json.loads(l)["id"] for l in open(os.path.join(HERE, "properties.jsonl"))]
checks, na = [], []
for pid in props:
    if pid in m.CLAIMS:
        c = m.CLAIMS[pid]
        checks.append({
            "property_id": pid,
            "quick_cmd": "./check %s --tier quick" % pid,
            "thorough_cmd": "./check %s --tier thorough" % pid,
            "evidence_file": "/verif/evidence/%s.json" % pid,
            "replay_cmd_template": "cat {path}",
            "engine": "vx+verus",
            "level_claimed": {"category": "proof", "text": c["text"], "design_ref": c.get("design_ref", "DESIGN.md section 3, " + pid)},
            "level_note": c["note"],
            "technique": c.get("technique", "contract-based deductive verification: Verus pre/postconditions and loop invariants on functions extracted mechanically from /repo/src on every run (a bounded schedule explorer on the real crate stands in, labelled bounded, only when changed code is outside the extraction rules)"),
        })
    else:
        na.append({"property_id": pid, "reason": m.NOT_CLAIMED[pid]})
man = {
    "version": 1,
    "setup_cmd": "./setup.sh",
    "hooks": {"guard": "rsactor_verif", "enable": "none needed: extraction reads /repo/src; no hook is compiled into /repo",
              "baseline_off_cmd": "cd /repo && cargo test --workspace --no-fail-fast --offline", "source_commits": [], "add_only": True},
    "engines": [{"name": "vx+verus", "path": "/verif/vx", "serves_properties": [c["property_id"] for c in checks],
                 "kind_free_text": "mechanical extractor (Python, token level) + Verus 0.2026.09.13 deductive verifier; Kani for synchronous tokio-free helpers"}],
    "checks": checks,
    "not_applicable": na,
    "notes": m.NOTES,
}
json.dump(man, open(os.path.join(HERE, "MANIFEST.json"), "w"), indent=1)
print("MANIFEST.json: %d checks, %d not applicable" % (len(checks), len(na)))
