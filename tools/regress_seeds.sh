#!/bin/sh
# every seeded change must raise a VIOLATION for its property.  usage: tools/regress_seeds.sh [repo-path] (default /repo)
R="${1:-/repo}"
cd /verif
for d in /verif/seeded/*/; do
  [ -f $d/patch.diff ] || continue; id=$(basename $d); prop=$(echo $id | cut -c1-3)
  git -C $R apply $d/patch.diff 2>/dev/null || { echo "$id: patch does not apply"; continue; }
  out=$(./check $prop --repo $R 2>&1 | grep -v "^KNOWN")
  git -C $R checkout -- .
  if echo "$out" | grep -q "^VIOLATION property=$prop"; then echo "$id: caught  $(echo "$out" | grep '^VIOLATION' | head -1 | sed 's/.*replays.//' | cut -c1-110)"; else echo "$id: MISSED  $(echo "$out" | tail -1 | cut -c1-200)"; fi
done
