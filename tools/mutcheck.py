#!/usr/bin/env python3
"""Developer tool: apply textual mutations to a scratch copy of /repo/src and show which labels fail."""
import sys, os, shutil, json, re
sys.path.insert(0, os.path.dirname(os.path.dirname(os.path.abspath(__file__))))
from vx.run import verify_feature_set

def run(name, file, old, new, features=(), count=1):
    scratch = "/var/tmp/vx_mut"
    shutil.rmtree(scratch, ignore_errors=True)
    os.makedirs(scratch)
    shutil.copytree("/repo/src", scratch + "/src")
    p = os.path.join(scratch, "src", file)
    s = open(p).read()
    if old not in s:
        print(name, "ANCHOR NOT FOUND"); return
    s = s.replace(old, new, count)
    open(p, "w").write(s)
    r = verify_feature_set(scratch, "/verif", list(features), use_cache=False, vacuity=False, tag="_mut")
    labs = sorted(set((f["label"] or "auto:" + f["message"]) + "@" + str(f["function"]).split("::")[-1] for f in r["failures"]))
    print("%-28s %-9s %s %s" % (name, r["status"], labs, r.get("reason", "") or ""))
    shutil.rmtree(scratch, ignore_errors=True)

if __name__ == "__main__":
    muts = json.load(open(sys.argv[1]))
    for m in muts:
        run(m["name"], m["file"], m["old"], m["new"], m.get("features", ()), m.get("count", 1))
