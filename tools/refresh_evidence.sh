#!/bin/sh
# re-run every quick check on the current /repo tree so that the committed evidence comes from the unchanged tree
cd /verif
git -C /repo status --short | grep -q . && { echo "/repo is not clean"; exit 1; }
for p in C01 C02 C03 C04 C05 C06 C07 C08 C09 C10 C11 C12 C13 C14 C15 C16 C17 C18 C20; do ./check $p 2>&1 | grep -v "^KNOWN" | tail -1; done
