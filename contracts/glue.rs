// =====================================================================================
// GLUE — small exec helpers the extraction rules refer to (rule D drop helpers, rule R11 static
// accessors, rule R-spawn).  external_body items here are TRUSTED and listed in the evidence.
// =====================================================================================

/// tokio::spawn(run_actor_lifecycle(..)): the task body is deferred.  What is checked at the spawn site
/// are the argument-only preconditions of run_actor_lifecycle; the task-context preconditions (no lock,
/// empty task-local, idle metrics monitor, ownership of its by-value ActorRef) hold for a fresh task (A7).
#[verifier::external_body]
pub fn vx_tokio_spawn__run_actor_lifecycle<T: Actor>(
    args: T::Args,
    actor_ref: ActorRef<T>,
    receiver: mpsc::Receiver<MailboxMessage<T>>,
    terminate_receiver: mpsc::Receiver<ControlSignal>,
    w: &mut World,
) -> (r: JoinHandle<ActorResult<T>>)
    requires
        receiver.chan() == actor_ref.mbx_chan(), /*L:spawn.lifecycle_gets_refs_mailbox*/
        terminate_receiver.chan() == actor_ref.ctl_chan(), /*L:spawn.lifecycle_gets_refs_control*/
        actor_ref.mbx_chan() != actor_ref.ctl_chan(), /*L:spawn.lifecycle_distinct_channels*/
    ensures
        final(w).log() == old(w).log().push(Eff::Spawned(actor_ref.mbx_chan(), actor_ref.ctl_chan(), val_id(args))),
        same_ambient(*old(w), *final(w)),
{ unimplemented!() }

/// R10 dispatcher: `payload.handle_message(..)` on a `Box<dyn PayloadHandler<A>>`.  Dynamic dispatch
/// reaches the (only) blanket impl, whose lifted body `handle_message__PayloadHandler` is verified against
/// the same clauses (contracts/specs.py HM_PRE / HM_POST); here they are assumed for the trait object.
#[verifier::external_body]
pub fn vx_dyn__handle_message<A: Actor>(
    this: Box<dyn PayloadHandler<A>>,
    actor: &mut A,
    actor_ref: ActorRef<A>,
    reply_channel: Option<oneshot::Sender<AnyBox>>,
    w: &mut World,
)
    requires
        /*@HM_PRE*/
    ensures
        /*@HM_POST*/
{ unimplemented!() }

// ---------------------------------------------------------------- rule R11: accessors of the crate's statics
#[verifier::external_body]
pub fn vx_static__ACTOR_IDS() -> (r: &'static AtomicU64) ensures r.cell() == cell_ACTOR_IDS() { unimplemented!() }
#[verifier::external_body]
pub fn vx_static__DEAD_LETTER_COUNT() -> (r: &'static AtomicU64) ensures r.cell() == cell_DEAD_LETTER_COUNT() { unimplemented!() }
#[verifier::external_body]
pub fn vx_static__CONFIGURED_DEFAULT_MAILBOX_CAPACITY() -> (r: &'static OnceLock<usize>) ensures r.cell() == cell_DEFAULT_CAPACITY() { unimplemented!() }

/// rule R3: the one log line that is an observable effect — the structured dead-letter warning
#[cfg(not(feature = "vx-nodl"))]
#[verifier::external_body]
pub fn vx_emit_dead_letter(actor_id: u64, actor_type: &'static str, message_type: &'static str,
                           reason: DeadLetterReason, operation: &'static str, w: &mut World)
    ensures
        final(w).log() == old(w).log().push(Eff::DeadLetterLog(actor_id, actor_type@, message_type@, reason, operation@)),
        same_ambient(*old(w), *final(w)),
{ }
/// attribution variant `vx-nodl`: the dead-letter alphabet is erased
#[cfg(feature = "vx-nodl")]
#[verifier::external_body]
pub fn vx_emit_dead_letter(actor_id: u64, actor_type: &'static str, message_type: &'static str,
                           reason: DeadLetterReason, operation: &'static str, w: &mut World)
    ensures
        final(w).log() == old(w).log(),
        same_ambient(*old(w), *final(w)),
{ }

// ---------------------------------------------------------------- R10 dispatchers: clone_boxed on trait objects
// (dynamic dispatch reaches the blanket impl for ActorRef<T> / ActorWeak<T>, whose lifted body is verified against the
// same clause: r.target() == this.target())
#[verifier::external_body]
pub fn vx_dyn__clone_boxed__TellHandler<M: Send + 'static>(this: &Box<dyn TellHandler<M>>) -> (r: Box<dyn TellHandler<M>>)
    ensures r.target() == this.target() { unimplemented!() }
#[verifier::external_body]
pub fn vx_dyn__clone_boxed__AskHandler<M: Send + 'static, R: Send + 'static>(this: &Box<dyn AskHandler<M, R>>) -> (r: Box<dyn AskHandler<M, R>>)
    ensures r.target() == this.target() { unimplemented!() }
#[verifier::external_body]
pub fn vx_dyn__clone_boxed__WeakTellHandler<M: Send + 'static>(this: &Box<dyn WeakTellHandler<M>>) -> (r: Box<dyn WeakTellHandler<M>>)
    ensures r.target() == this.target() { unimplemented!() }
#[verifier::external_body]
pub fn vx_dyn__clone_boxed__WeakAskHandler<M: Send + 'static, R: Send + 'static>(this: &Box<dyn WeakAskHandler<M, R>>) -> (r: Box<dyn WeakAskHandler<M, R>>)
    ensures r.target() == this.target() { unimplemented!() }
#[verifier::external_body]
pub fn vx_dyn__clone_boxed__ActorControl(this: &Box<dyn ActorControl>) -> (r: Box<dyn ActorControl>)
    ensures r.target() == this.target() { unimplemented!() }
#[verifier::external_body]
pub fn vx_dyn__clone_boxed__WeakActorControl(this: &Box<dyn WeakActorControl>) -> (r: Box<dyn WeakActorControl>)
    ensures r.target() == this.target() { unimplemented!() }

// ---------------------------------------------------------------- deadlock detection helpers (verified, not trusted)
/// `.lock().unwrap()`: a poisoned lock panics here (the lock is not held in that case)
#[cfg(feature = "deadlock-detection")]
pub fn vx_unwrap_lock(r: core::result::Result<Box<HashMap<u64, Identity>>, PoisonError>, w: &mut World) -> (g: Box<HashMap<u64, Identity>>)
    requires r is Err ==> !old(w).lock_held(),
    ensures r == Ok::<Box<HashMap<u64, Identity>>, PoisonError>(g), *final(w) == *old(w),
{
    match r { Ok(g) => g, Err(_) => vx_panic_site(w) }
}

/// rule D for `_guard: Option<WaitForGuard>` in ActorRef::ask: Option's drop glue runs the inner Drop impl if Some
#[cfg(feature = "deadlock-detection")]
pub fn vx_drop_opt_guard(g: Option<WaitForGuard>, w: &mut World)
    requires !old(w).lock_held(),
    ensures guard_dropped(g, *old(w), *final(w)),
{
    match g { Some(x) => drop__WaitForGuard(x, w), None => {} }
}

/// a panic site where the framework must never panic: inside a Drop body (a panic while unwinding aborts; a poisoned wait-for
/// lock must be tolerated) and in every function under contract except the two documented panics (capacity 0 in
/// spawn_with_mailbox_capacity, the deliberate deadlock panic in ask): unreachable by contract
#[verifier::external_body]
pub fn vx_forbidden_panic(w: &mut World) -> !
    requires
        false, /*L:framework.no_unexpected_panic*/
{ panic!() }
#[cfg(feature = "deadlock-detection")]
pub fn vx_unwrap_lock_nopanic(r: core::result::Result<Box<HashMap<u64, Identity>>, PoisonError>, w: &mut World) -> (g: Box<HashMap<u64, Identity>>)
    requires
        r is Ok, /*L:framework.no_unexpected_panic*/
    ensures r == Ok::<Box<HashMap<u64, Identity>>, PoisonError>(g), *final(w) == *old(w),
{
    match r { Ok(g) => g, Err(_) => vx_forbidden_panic(w) }
}

// ---------------------------------------------------------------- metrics: clock-dependent helpers NOT under contract (A11)
#[cfg(feature = "metrics")]
impl MetricsCollector {
    /// SystemTime::now() ... store into last_activity_millis: only that cell changes
    #[verifier::external_body]
    pub fn update_last_activity(&self, w: &mut World)
        ensures
            final(w).cells() == old(w).cells().insert(self.last_activity_millis.cell(), final(w).cells()[self.last_activity_millis.cell()]),
            final(w).log() == old(w).log(), same_ambient_but_cells(*old(w), *final(w)),
    { unimplemented!() }
    #[verifier::external_body]
    pub fn get_last_activity(&self, w: &mut World) -> (r: Option<SystemTime>)
        ensures *final(w) == *old(w),
    { unimplemented!() }
}
