// =====================================================================================
// GLUE — small exec helpers the extraction rules refer to (rule D drop helpers, rule R11 static
// accessors, rule R-spawn).  external_body items here are TRUSTED and listed in the evidence.
// =====================================================================================

/// tokio::spawn(run_actor_lifecycle(..)): the task body is deferred.  What is checked at the spawn site
/// are the argument-only preconditions of run_actor_lifecycle; the task-context preconditions (no lock,
/// empty task-local, idle metrics monitor, ownership of its by-value ActorRef) hold for a fresh task (A7).
#[verifier::external_body]
pub fn vx_tokio_spawn__run_actor_lifecycle<T: Actor>(
    args: T::Args,
    actor_ref: ActorRef<T>,
    receiver: mpsc::Receiver<MailboxMessage<T>>,
    terminate_receiver: mpsc::Receiver<ControlSignal>,
    w: &mut World,
) -> (r: JoinHandle<ActorResult<T>>)
    requires
        receiver.chan() == actor_ref.mbx_chan(), /*L:spawn.lifecycle_gets_refs_mailbox*/
        terminate_receiver.chan() == actor_ref.ctl_chan(), /*L:spawn.lifecycle_gets_refs_control*/
        actor_ref.mbx_chan() != actor_ref.ctl_chan(), /*L:spawn.lifecycle_distinct_channels*/
    ensures
        final(w).log() == old(w).log().push(Eff::Spawned(actor_ref.mbx_chan(), actor_ref.ctl_chan(), val_id(args))),
        same_ambient(*old(w), *final(w)),
{ unimplemented!() }

/// R10 dispatcher: `payload.handle_message(..)` on a `Box<dyn PayloadHandler<A>>`.  Dynamic dispatch
/// reaches the (only) blanket impl, whose lifted body `handle_message__PayloadHandler` is verified against
/// the same clauses (contracts/specs.py HM_PRE / HM_POST); here they are assumed for the trait object.
#[verifier::external_body]
pub fn vx_dyn__handle_message<A: Actor>(
    this: Box<dyn PayloadHandler<A>>,
    actor: &mut A,
    actor_ref: ActorRef<A>,
    reply_channel: Option<oneshot::Sender<AnyBox>>,
    w: &mut World,
)
    requires
        /*@HM_PRE*/
    ensures
        /*@HM_POST*/
{ unimplemented!() }
