// =====================================================================================
// CONTRACT VOCABULARY — spec functions the contracts in contracts/specs.py are written in.
// Pure specification (no exec code, no axioms): the safety monitor, the effect relations,
// views of the extracted types.
// =====================================================================================

// ---------------------------------------------------------------- views of extracted handle types
impl<T: Actor> ActorRef<T> {
    pub open spec fn mbx_chan(&self) -> int { self.sender.chan() }
    pub open spec fn ctl_chan(&self) -> int { self.terminate_sender.chan() }
    pub open spec fn identity_spec(&self) -> Identity { self.id }
}
impl<T: Actor> ActorWeak<T> {
    pub open spec fn mbx_chan(&self) -> int { self.sender.chan() }
    pub open spec fn ctl_chan(&self) -> int { self.terminate_sender.chan() }
    pub open spec fn identity_spec(&self) -> Identity { self.id }
}

/// dropping a strong ActorRef explicitly (std::mem::drop): logged, and if it is the lifecycle's own
/// by-value reference the ownership flag is cleared
impl<T: Actor> VxDrop for ActorRef<T> {
    open spec fn drop_eff(&self, w0: World, w1: World) -> bool {
        &&& w1.log() == w0.log().push(Eff::Released(self.mbx_chan()))
        &&& w1.own_strong() == (if w0.own_strong() == Some(self.mbx_chan()) { None::<int> } else { w0.own_strong() })
        &&& w1.current_actor() == w0.current_actor()
        &&& w1.lock_held() == w0.lock_held()
        &&& w1.poisoned() == w0.poisoned()
        &&& w1.graph() == w0.graph()
        &&& w1.mmon() == w0.mmon()
        &&& w1.cap_cell() == w0.cap_cell()
        &&& w1.id_floor() == w0.id_floor()
        &&& w1.chan_floor() == w0.chan_floor()
        &&& w1.dl_count() == w0.dl_count()
    }
}

// ---------------------------------------------------------------- safety monitor (DESIGN 2.4)
pub enum Cause<E> { Killed, RefsDropped, StopMarker, MailboxClosed, RunErr(E) }
pub enum Ph<E> {
    Init,
    Head,                       // between passes / after a completed handler
    C,                          // control polled (pending so far) in this pass
    CM,                         // control + mailbox polled, both pending
    CMI,                        // + idle polled
    FiredC(Obs),
    FiredM(Obs),
    Ran(core::result::Result<bool, E>),       // on_run completed right after being polled
    FiredI(core::result::Result<bool, E>),
    Stopped(bool, Option<E>, Cause<E>),
}
pub struct Mon<E> { pub ph: Ph<E>, pub bad: bool, pub idle_off: bool, pub ctl: int, pub mbx: int, pub id: Identity }

pub open spec fn mon_init<E>(ctl: int, mbx: int, id: Identity) -> Mon<E> {
    Mon { ph: Ph::Init, bad: false, idle_off: false, ctl, mbx, id }
}

/// The transition table *is* the formal statement of C04, C05, C06, C08 and the actor-side halves of
/// C01, C02, C07.  `bad` is absorbing.
pub open spec fn step<E>(m: Mon<E>, e: Ev<E>) -> Mon<E> {
    let bad = Mon { bad: true, ..m };
    if m.bad { m } else {
    match e {
        // on_start first, exactly once
        Ev::Started => if m.ph is Init { Mon { ph: Ph::Head, ..m } } else { bad },
        Ev::Poll(Src::Chan(c)) =>
            if c == m.ctl && m.ctl != m.mbx {
                // a pass starts with the control channel (kill pre-empts everything: C06)
                match m.ph {
                    Ph::Head | Ph::CM | Ph::CMI => Mon { ph: Ph::C, ..m },
                    Ph::FiredI(Ok(_)) => Mon { ph: Ph::C, ..m },
                    _ => bad }
            } else if c == m.mbx && m.ctl != m.mbx {
                // the mailbox is polled only right after a pending control poll
                if m.ph is C { Mon { ph: Ph::CM, ..m } } else { bad }
            } else { bad },
        // on_run is polled only after pending control and mailbox polls of the same pass, and never
        // again after it returned Ok(false) (C08)
        Ev::Poll(Src::Idle) => if m.ph is CM && !m.idle_off { Mon { ph: Ph::CMI, ..m } } else { bad },
        Ev::Fired(Src::Chan(c), o) =>
            if c == m.ctl && m.ph is C && (o is Signal || o is Closed) { Mon { ph: Ph::FiredC(o), ..m } }
            else if c == m.mbx && m.ph is CM && (o is Envelope || o is StopMark || o is Closed) { Mon { ph: Ph::FiredM(o), ..m } }
            else { bad },
        Ev::RunDone(v) => if m.ph is CMI { Mon { ph: Ph::Ran(v), idle_off: v == Ok::<bool, E>(false), ..m } } else { bad },
        Ev::Fired(Src::Idle, o) => match m.ph { Ph::Ran(v) => Mon { ph: Ph::FiredI(v), ..m }, _ => bad },
        // a handler runs only for the envelope just taken, in a pass whose control poll was pending,
        // exactly once, before the next poll (C01, C02, C06)
        Ev::Handled(id) => if m.ph == Ph::<E>::FiredM(Obs::Envelope(id)) { Mon { ph: Ph::Head, ..m } } else { bad },
        // on_stop: only for one of the five causes, with killed iff a signal was consumed; nothing after it
        Ev::Stopped(k, err) => match m.ph {
            Ph::FiredC(Obs::Signal) => if k { Mon { ph: Ph::Stopped(k, err, Cause::Killed), ..m } } else { bad },
            Ph::FiredC(Obs::Closed) => if !k { Mon { ph: Ph::Stopped(k, err, Cause::RefsDropped), ..m } } else { bad },
            Ph::FiredM(Obs::StopMark) => if !k { Mon { ph: Ph::Stopped(k, err, Cause::StopMarker), ..m } } else { bad },
            Ph::FiredM(Obs::Closed) => if !k { Mon { ph: Ph::Stopped(k, err, Cause::MailboxClosed), ..m } } else { bad },
            Ph::FiredI(Err(e)) => if !k { Mon { ph: Ph::Stopped(k, err, Cause::RunErr(e)), ..m } } else { bad },
            _ => bad },
    } }
}

/// C04 + C05: what the value returned by run_actor_lifecycle says, against what the monitor saw.
pub open spec fn lifecycle_post<T: Actor>(args: T::Args, actor_ref: ActorRef<T>, r: ActorResult<T>) -> bool {
    match T::start_spec(args, actor_ref) {
        Err(e0) => r matches ActorResult::Failed { actor: None, error, phase: FailurePhase::OnStart, killed: false } && error == e0,
        Ok(_) => match r {
            ActorResult::Completed { actor, killed } =>
                !actor.mon().bad && (actor.mon().ph matches Ph::Stopped(k, None, c) && k == killed && !(c is RunErr)),
            ActorResult::Failed { actor: None, .. } => false,
            ActorResult::Failed { actor: Some(actor), error, phase, killed } => !actor.mon().bad && match phase {
                FailurePhase::OnStart => false,
                FailurePhase::OnStop => actor.mon().ph matches Ph::Stopped(k, Some(e), c) && k == killed && e == error && !(c is RunErr),
                FailurePhase::OnRun => !killed && actor.mon().ph == Ph::<T::Error>::Stopped(false, None, Cause::RunErr(error)),
                FailurePhase::OnRunThenOnStop => !killed && (actor.mon().ph matches Ph::Stopped(false, Some(_), Cause::RunErr(e)) && e == error),
            },
        },
    }
}

pub open spec fn at_head<E>(m: Mon<E>) -> bool {
    !m.bad && (m.ph is Head || m.ph is CM || m.ph is CMI || m.ph matches Ph::FiredI(Ok(_)))
}
pub open spec fn loop_inv<T: Actor>(actor: T, idle_enabled: bool, killed: bool) -> bool {
    at_head(actor.mon()) && !killed && (idle_enabled ==> !actor.mon().idle_off)
        && (actor.mon().ph is CM ==> !idle_enabled)
}
pub open spec fn sel_post3<T: Actor>(actor: T,
    out: Out3<Option<ControlSignal>, Option<MailboxMessage<T>>, core::result::Result<bool, T::Error>>) -> bool {
    !actor.mon().bad && match out {
        Out3::B0(v) => actor.mon().ph == Ph::<T::Error>::FiredC(vx_obs(&v)),
        Out3::B1(v) => actor.mon().ph == Ph::<T::Error>::FiredM(vx_obs(&v)) && (v matches Some(m) ==> m.fits(actor.mon().mbx)),
        Out3::B2(v) => actor.mon().ph == Ph::<T::Error>::FiredI(v),
    }
}
pub open spec fn mmon_idle(w: World) -> bool { !w.mmon().bad && w.mmon().ph is Idle }

// ---------------------------------------------------------------- handle_message log shapes (C03, C19 runtime half)
pub open spec fn last_vid(l: Seq<Eff>) -> int {
    if l.len() == 0 { 0 } else { match l.last() {
        Eff::TellResultDone(v) => v,
        Eff::ReplySent(_, v) => v,
        Eff::ReplyLost(_, v) => v,
        _ => 0,
    } }
}
/// ask path: arbitrary handler effects, then the handler's return marker, then exactly one reply attempt on
/// *this* request carrying *that* value; no on_tell_result.
pub open spec fn reply_log_ok(l0: Seq<Eff>, l1: Seq<Eff>, pid: int, req: int) -> bool {
    let v = last_vid(l1);
    let base = hook_log(l0, HookTag::Handle(pid)).push(Eff::Ret(pid, v));
    l1 == base.push(Eff::ReplySent(req, v)) || l1 == base.push(Eff::ReplyLost(req, v))
}
/// tell path: handler, return marker, then exactly one on_tell_result with that value; no reply.
pub open spec fn tell_log_ok(l0: Seq<Eff>, l1: Seq<Eff>, pid: int) -> bool {
    let v = last_vid(l1);
    l1 == hook_log(hook_log(l0, HookTag::Handle(pid)).push(Eff::Ret(pid, v)), HookTag::TellResult(v)).push(Eff::TellResultDone(v))
}
