// =====================================================================================
// CONTRACT VOCABULARY — spec functions the contracts in contracts/specs.py are written in.
// Pure specification (no exec code, no axioms): the safety monitor, the effect relations,
// views of the extracted types.
// =====================================================================================

// ---------------------------------------------------------------- views of extracted handle types
/// what a handle (strong, weak or type-erased) designates: the actor's identity and its two channels
pub struct HandleView { pub id: Identity, pub mbx: int, pub ctl: int }

impl<T: Actor> ActorRef<T> {
    pub open spec fn hv(&self) -> HandleView { HandleView { id: self.id, mbx: self.sender.chan(), ctl: self.terminate_sender.chan() } }
    pub open spec fn mbx_chan(&self) -> int { self.sender.chan() }
    pub open spec fn ctl_chan(&self) -> int { self.terminate_sender.chan() }
    pub open spec fn identity_spec(&self) -> Identity { self.id }
}
impl<T: Actor> ActorWeak<T> {
    pub open spec fn hv(&self) -> HandleView { HandleView { id: self.id, mbx: self.sender.chan(), ctl: self.terminate_sender.chan() } }
    pub open spec fn mbx_chan(&self) -> int { self.sender.chan() }
    pub open spec fn ctl_chan(&self) -> int { self.terminate_sender.chan() }
    pub open spec fn identity_spec(&self) -> Identity { self.id }
}

/// dropping a strong ActorRef explicitly (std::mem::drop): logged, and if it is the lifecycle's own
/// by-value reference the ownership flag is cleared
impl<T: Actor> VxDrop for ActorRef<T> {
    open spec fn drop_eff(&self, w0: World, w1: World) -> bool {
        &&& w1.log() == w0.log().push(Eff::Released(self.mbx_chan()))
        &&& w1.own_strong() == (if w0.own_strong() == Some(self.mbx_chan()) { None::<int> } else { w0.own_strong() })
        &&& w1.current_actor() == w0.current_actor()
        &&& w1.lock_held() == w0.lock_held()
        &&& w1.poisoned() == w0.poisoned()
        &&& w1.graph() == w0.graph()
        &&& w1.mmon() == w0.mmon()
        &&& w1.cap_cell() == w0.cap_cell()
        &&& w1.id_floor() == w0.id_floor()
        &&& w1.chan_floor() == w0.chan_floor()
        &&& w1.dl_count() == w0.dl_count()
        &&& w1.cells() == w0.cells()
    }
}

// ---------------------------------------------------------------- safety monitor (DESIGN 2.4)
pub enum Cause<E> { Killed, RefsDropped, StopMarker, MailboxClosed, RunErr(E) }
pub enum Ph<E> {
    Init,
    Head,                       // between passes / after a completed handler
    C,                          // control polled (pending so far) in this pass
    CM,                         // control + mailbox polled, both pending
    CMI,                        // + idle polled
    FiredC(Obs),
    FiredM(Obs),
    Ran(core::result::Result<bool, E>),       // on_run completed right after being polled
    FiredI(core::result::Result<bool, E>),
    Stopped(bool, Option<E>, Cause<E>),
}
pub struct Mon<E> { pub ph: Ph<E>, pub bad: bool, pub why: int, pub idle_off: bool, pub ctl: int, pub mbx: int, pub id: Identity }

pub open spec fn mon_init<E>(ctl: int, mbx: int, id: Identity) -> Mon<E> {
    Mon { ph: Ph::Init, bad: false, why: 0, idle_off: false, ctl, mbx, id }
}

// Why the monitor went bad (recorded at the FIRST bad step; `bad` is absorbing), so that a violation is attributed to the
// properties that rule stands for and to no others.
pub open spec fn W_START_NOT_FIRST() -> int { 1 }      // on_start a second time / late
pub open spec fn W_WORK_BEFORE_START() -> int { 2 }    // polling / handling / stopping before on_start completed
pub open spec fn W_AFTER_STOP() -> int { 3 }           // anything after on_stop
pub open spec fn W_CTL_SIGNAL_IGNORED() -> int { 4 }   // a consumed kill signal not followed by on_stop
pub open spec fn W_CTL_CLOSED_IGNORED() -> int { 5 }   // "all strong references gone" observed, not followed by on_stop
pub open spec fn W_ENVELOPE_NOT_HANDLED() -> int { 6 } // an envelope taken from the mailbox, its handler not run next
pub open spec fn W_STOPMARK_IGNORED() -> int { 7 }     // stop marker / closed mailbox observed, not followed by on_stop
pub open spec fn W_RUN_ERR_IGNORED() -> int { 8 }      // on_run returned Err, not followed by on_stop
pub open spec fn W_POLL_ORDER() -> int { 9 }           // mailbox polled without a pending control poll first (or control twice)
pub open spec fn W_IDLE_POLL() -> int { 10 }           // on_run polled before control+mailbox were pending, or after Ok(false)
pub open spec fn W_HANDLED_WITHOUT_TAKE() -> int { 11 }// a handler run for something not just taken
pub open spec fn W_STOP_WITHOUT_CAUSE() -> int { 12 }  // on_stop without one of the five causes
pub open spec fn W_KILLED_FLAG() -> int { 13 }         // on_stop(killed) with killed != "a kill signal was consumed"
pub open spec fn W_MODEL() -> int { 14 }               // event sequence the shim itself cannot produce

/// which properties (by number) a reason stands for; an unknown reason blames every monitor property
pub open spec fn blames(why: int, p: int) -> bool {
    if why == 1 || why == 2 { p == 4 }
    else if why == 3 { p == 4 || p == 7 }
    else if why == 4 { p == 6 }
    else if why == 5 { p == 7 }
    else if why == 6 { p == 1 || p == 2 }
    else if why == 7 { p == 7 || p == 2 || p == 1 }
    else if why == 8 { p == 4 || p == 5 }
    else if why == 9 { p == 6 }
    else if why == 10 { p == 8 }
    else if why == 11 { p == 1 || p == 2 }
    else if why == 12 { p == 7 || p == 4 }
    else if why == 13 { p == 4 || p == 6 }
    else { true }
}
/// the monitor has not recorded a violation of property p
pub open spec fn ok_for<E>(m: Mon<E>, p: int) -> bool { !(m.bad && blames(m.why, p)) }

pub open spec fn why_of<E>(m: Mon<E>, e: Ev<E>) -> int {
    if e is Started { W_START_NOT_FIRST() } else {
    match m.ph {
        Ph::Init => W_WORK_BEFORE_START(),
        Ph::Stopped(_, _, _) => W_AFTER_STOP(),
        Ph::FiredC(Obs::Signal) => if e is Stopped { W_KILLED_FLAG() } else { W_CTL_SIGNAL_IGNORED() },
        Ph::FiredC(_) => if e is Stopped { W_KILLED_FLAG() } else { W_CTL_CLOSED_IGNORED() },
        Ph::FiredM(Obs::Envelope(_)) => if e is Stopped { W_STOP_WITHOUT_CAUSE() } else { W_ENVELOPE_NOT_HANDLED() },
        Ph::FiredM(_) => if e is Stopped { W_KILLED_FLAG() } else { W_STOPMARK_IGNORED() },
        Ph::FiredI(Err(_)) => if e is Stopped { W_KILLED_FLAG() } else { W_RUN_ERR_IGNORED() },
        Ph::Ran(_) => W_MODEL(),
        _ => match e {
            Ev::Poll(Src::Idle) => W_IDLE_POLL(),
            Ev::Poll(_) => W_POLL_ORDER(),
            Ev::Handled(_) => W_HANDLED_WITHOUT_TAKE(),
            Ev::Stopped(_, _) => W_STOP_WITHOUT_CAUSE(),
            Ev::RunDone(_) => W_IDLE_POLL(),
            _ => W_MODEL(),
        },
    } }
}

/// The transition table *is* the formal statement of C04, C05, C06, C08 and the actor-side halves of
/// C01, C02, C07.  `bad` is absorbing; `why` keeps the reason of the first bad step.
pub open spec fn step<E>(m: Mon<E>, e: Ev<E>) -> Mon<E> {
    let bad = Mon { bad: true, why: why_of(m, e), ..m };
    if m.bad { m } else {
    match e {
        // on_start first, exactly once
        Ev::Started => if m.ph is Init { Mon { ph: Ph::Head, ..m } } else { bad },
        Ev::Poll(Src::Chan(c)) =>
            if c == m.ctl && m.ctl != m.mbx {
                // a pass starts with the control channel (kill pre-empts everything: C06)
                match m.ph {
                    Ph::Head | Ph::CM | Ph::CMI => Mon { ph: Ph::C, ..m },
                    Ph::FiredI(Ok(_)) => Mon { ph: Ph::C, ..m },
                    _ => bad }
            } else if c == m.mbx && m.ctl != m.mbx {
                // the mailbox is polled only right after a pending control poll
                if m.ph is C { Mon { ph: Ph::CM, ..m } } else { bad }
            } else { bad },
        // on_run is polled only after pending control and mailbox polls of the same pass, and never
        // again after it returned Ok(false) (C08)
        Ev::Poll(Src::Idle) => if m.ph is CM && !m.idle_off { Mon { ph: Ph::CMI, ..m } } else { bad },
        Ev::Fired(Src::Chan(c), o) =>
            if c == m.ctl && m.ph is C && (o is Signal || o is Closed) { Mon { ph: Ph::FiredC(o), ..m } }
            else if c == m.mbx && m.ph is CM && (o is Envelope || o is StopMark || o is Closed) { Mon { ph: Ph::FiredM(o), ..m } }
            else { bad },
        Ev::RunDone(v) => if m.ph is CMI { Mon { ph: Ph::Ran(v), idle_off: v == Ok::<bool, E>(false), ..m } } else { bad },
        Ev::Fired(Src::Idle, o) => match m.ph { Ph::Ran(v) => Mon { ph: Ph::FiredI(v), ..m }, _ => bad },
        // a handler runs only for the envelope just taken, in a pass whose control poll was pending,
        // exactly once, before the next poll (C01, C02, C06)
        Ev::Handled(id) => if m.ph == Ph::<E>::FiredM(Obs::Envelope(id)) { Mon { ph: Ph::Head, ..m } } else { bad },
        // on_stop: only for one of the five causes, with killed iff a signal was consumed; nothing after it
        Ev::Stopped(k, err) => match m.ph {
            Ph::FiredC(Obs::Signal) => if k { Mon { ph: Ph::Stopped(k, err, Cause::Killed), ..m } } else { bad },
            Ph::FiredC(Obs::Closed) => if !k { Mon { ph: Ph::Stopped(k, err, Cause::RefsDropped), ..m } } else { bad },
            Ph::FiredM(Obs::StopMark) => if !k { Mon { ph: Ph::Stopped(k, err, Cause::StopMarker), ..m } } else { bad },
            Ph::FiredM(Obs::Closed) => if !k { Mon { ph: Ph::Stopped(k, err, Cause::MailboxClosed), ..m } } else { bad },
            Ph::FiredI(Err(e)) => if !k { Mon { ph: Ph::Stopped(k, err, Cause::RunErr(e)), ..m } } else { bad },
            _ => bad },
    } }
}

/// C05: what the value returned by run_actor_lifecycle says, against what the monitor saw.  Nothing is claimed here about a
/// run whose monitor already went bad: that is reported, per property, by `result_ok_for`.
pub open spec fn lifecycle_post<T: Actor>(args: T::Args, actor_ref: ActorRef<T>, r: ActorResult<T>) -> bool {
    match T::start_spec(args, actor_ref) {
        Err(e0) => r matches ActorResult::Failed { actor: None, error, phase: FailurePhase::OnStart, killed: false } && error == e0,
        Ok(_) => match r {
            ActorResult::Completed { actor, killed } =>
                actor.mon().bad || (actor.mon().ph matches Ph::Stopped(k, None, c) && k == killed && !(c is RunErr)),
            ActorResult::Failed { actor: None, .. } => false,
            ActorResult::Failed { actor: Some(actor), error, phase, killed } => actor.mon().bad || match phase {
                FailurePhase::OnStart => false,
                FailurePhase::OnStop => actor.mon().ph matches Ph::Stopped(k, Some(e), c) && k == killed && e == error && !(c is RunErr),
                FailurePhase::OnRun => !killed && actor.mon().ph == Ph::<T::Error>::Stopped(false, None, Cause::RunErr(error)),
                FailurePhase::OnRunThenOnStop => !killed && (actor.mon().ph matches Ph::Stopped(false, Some(_), Cause::RunErr(e)) && e == error),
            },
        },
    }
}
/// the monitor of the returned actor has recorded no violation of property p
pub open spec fn result_ok_for<T: Actor>(r: ActorResult<T>, p: int) -> bool {
    match r {
        ActorResult::Completed { actor, .. } => ok_for(actor.mon(), p),
        ActorResult::Failed { actor: Some(actor), .. } => ok_for(actor.mon(), p),
        _ => true,
    }
}

// what must hold of the monitor phase between two passes of the loop, one clause per kind of unfinished business, so that
// each is attributed to the property it stands for.  Together (when !bad): ph is Head, CM, CMI or FiredI(Ok(_)).
pub open spec fn ph_started_not_stopped<E>(m: Mon<E>) -> bool { m.bad || !(m.ph is Init || m.ph is Stopped) }
pub open spec fn ph_no_pending_control<E>(m: Mon<E>) -> bool { m.bad || !(m.ph is C || m.ph == Ph::<E>::FiredC(Obs::Signal)) }
pub open spec fn ph_no_pending_close<E>(m: Mon<E>) -> bool {
    m.bad || !((m.ph matches Ph::FiredC(o) && !(o is Signal)) || (m.ph matches Ph::FiredM(o) && !(o is Envelope)))
}
pub open spec fn ph_no_pending_envelope<E>(m: Mon<E>) -> bool { m.bad || !(m.ph matches Ph::FiredM(Obs::Envelope(_))) }
pub open spec fn ph_no_pending_run_err<E>(m: Mon<E>) -> bool { m.bad || !(m.ph matches Ph::FiredI(Err(_))) }
pub open spec fn ph_not_mid_idle<E>(m: Mon<E>) -> bool { m.bad || !(m.ph is Ran) }
pub open spec fn at_head<E>(m: Mon<E>) -> bool {
    m.bad || (m.ph is Head || m.ph is CM || m.ph is CMI || m.ph matches Ph::FiredI(Ok(_)))
}
/// idle_enabled is exactly "on_run has not returned Ok(false) yet": it is never cleared on Ok(true) (C08: on_run is run
/// again when the actor is next idle) and always cleared on Ok(false)
pub open spec fn idle_flag_inv<T: Actor>(actor: T, idle_enabled: bool) -> bool {
    actor.mon().bad || ((idle_enabled == !actor.mon().idle_off) && (actor.mon().ph is CM ==> !idle_enabled))
}
pub open spec fn sel_post_b0<T: Actor>(actor: T,
    out: Out3<Option<ControlSignal>, Option<MailboxMessage<T>>, core::result::Result<bool, T::Error>>) -> bool {
    actor.mon().bad || (out matches Out3::B0(v) ==> actor.mon().ph == Ph::<T::Error>::FiredC(vx_obs(&v)))
}
pub open spec fn sel_post_b1<T: Actor>(actor: T,
    out: Out3<Option<ControlSignal>, Option<MailboxMessage<T>>, core::result::Result<bool, T::Error>>) -> bool {
    actor.mon().bad || (out matches Out3::B1(v) ==> actor.mon().ph == Ph::<T::Error>::FiredM(vx_obs(&v)))
}
pub open spec fn sel_post_b1_fits<T: Actor>(actor: T,
    out: Out3<Option<ControlSignal>, Option<MailboxMessage<T>>, core::result::Result<bool, T::Error>>) -> bool {
    out matches Out3::B1(Some(m)) ==> m.fits(actor.mon().mbx)
}
pub open spec fn sel_post_b2<T: Actor>(actor: T,
    out: Out3<Option<ControlSignal>, Option<MailboxMessage<T>>, core::result::Result<bool, T::Error>>) -> bool {
    actor.mon().bad || (out matches Out3::B2(v) ==> actor.mon().ph == Ph::<T::Error>::FiredI(v))
}
pub open spec fn mmon_idle(w: World) -> bool { !w.mmon().bad && w.mmon().ph is Idle }

// ---------------------------------------------------------------- handle_message log shapes (C03, C19 runtime half)
pub open spec fn last_vid(l: Seq<Eff>) -> int {
    if l.len() == 0 { 0 } else { match l.last() {
        Eff::TellResultDone(v) => v,
        Eff::ReplySent(_, v) => v,
        Eff::ReplyLost(_, v) => v,
        _ => 0,
    } }
}
/// ask path: arbitrary handler effects, then the handler's return marker, then exactly one reply attempt on
/// *this* request carrying *that* value; no on_tell_result.
pub open spec fn reply_log_ok(l0: Seq<Eff>, l1: Seq<Eff>, pid: int, req: int) -> bool {
    let v = last_vid(l1);
    let base = hook_log(l0, HookTag::Handle(pid)).push(Eff::Ret(pid, v));
    l1 =~= base.push(Eff::ReplySent(req, v)) || l1 =~= base.push(Eff::ReplyLost(req, v))
}
/// tell path: handler, return marker, then exactly one on_tell_result with that value; no reply.
pub open spec fn tell_log_ok(l0: Seq<Eff>, l1: Seq<Eff>, pid: int) -> bool {
    let v = last_vid(l1);
    l1 =~= hook_log(hook_log(l0, HookTag::Handle(pid)).push(Eff::Ret(pid, v)), HookTag::TellResult(v)).push(Eff::TellResultDone(v))
}

// ---------------------------------------------------------------- effect relations of the send side (DESIGN 2.4)
pub open spec fn env_view(pid: int, req: Option<int>, mbx: int) -> MsgView { MsgView::Envelope { pid, req, holds: mbx } }

/// what one call of dead_letter::record::<M>(identity, reason, op) appends to the log
#[cfg(all(feature = "test-utils", not(feature = "vx-nodl")))]
pub open spec fn dl_log<M>(l: Seq<Eff>, identity: Identity, reason: DeadLetterReason, op: Seq<char>) -> Seq<Eff> {
    l.push(Eff::FetchAdd(cell_DEAD_LETTER_COUNT(), 1)).push(Eff::DeadLetterLog(identity.id, identity.type_name@, type_name_spec::<M>(), reason, op))
}
#[cfg(all(not(feature = "test-utils"), not(feature = "vx-nodl")))]
pub open spec fn dl_log<M>(l: Seq<Eff>, identity: Identity, reason: DeadLetterReason, op: Seq<char>) -> Seq<Eff> {
    l.push(Eff::DeadLetterLog(identity.id, identity.type_name@, type_name_spec::<M>(), reason, op))
}
/// attribution variant `vx-nodl` (check: DESIGN 8.11): dead-letter effects are erased from the alphabet, in the shim and here
/// alike, so that the SAME relations state everything about a call except its dead letters
#[cfg(feature = "vx-nodl")]
pub open spec fn dl_log<M>(l: Seq<Eff>, identity: Identity, reason: DeadLetterReason, op: Seq<char>) -> Seq<Eff> { l }

// ---- the dead-letter facet of the log (C13), stated on its own so that a change is attributed to C13 exactly when THIS fails
pub mod facets {
    use vstd::prelude::*;
    use super::Eff;
    pub open spec fn is_dl(e: Eff) -> bool {
        // 2 == cell_DEAD_LETTER_COUNT() (checked by facets_cell_is_dead_letter_count below; a broadcast lemma's module must not
        // depend on functions of the module that uses it)
        e is DeadLetterLog || (e matches Eff::FetchAdd(c, _) && c == 2)
    }
    /// the dead-letter effects of a log, in order
    pub open spec fn proj_dl(l: Seq<Eff>) -> Seq<Eff>
        decreases l.len()
    {
        if l.len() == 0 { Seq::empty() } else {
            let p = proj_dl(l.drop_last());
            if is_dl(l.last()) { p.push(l.last()) } else { p }
        }
    }
    pub broadcast proof fn lemma_proj_dl_push(l: Seq<Eff>, e: Eff)
        ensures #[trigger] proj_dl(l.push(e)) == (if is_dl(e) { proj_dl(l).push(e) } else { proj_dl(l) })
    {
        assert(l.push(e).drop_last() =~= l);
        assert(l.push(e).last() == e);
    }
    pub broadcast proof fn lemma_take_push(l: Seq<Eff>, e: Eff, k: int)
        requires 0 <= k <= l.len()
        ensures #[trigger] l.push(e).take(k) == l.take(k)
    { assert(l.push(e).take(k) =~= l.take(k)); }
    pub broadcast proof fn lemma_take_all(l: Seq<Eff>)
        ensures #[trigger] l.take(l.len() as int) == l
    { assert(l.take(l.len() as int) =~= l); }
}
pub use facets::*;
pub proof fn facets_cell_is_dead_letter_count() ensures cell_DEAD_LETTER_COUNT() == 2 {}
broadcast use {facets::lemma_proj_dl_push, facets::lemma_take_push, facets::lemma_take_all};

/// the dead letters one send-side call adds: none, or exactly one record (with its counter bump) for this actor, this
/// message type, the given reason and operation
pub open spec fn r_dl<M>(id: Identity, l0: Seq<Eff>, l1: Seq<Eff>, reason: Option<DeadLetterReason>, op: Seq<char>) -> bool {
    match reason {
        None => proj_dl(l1) =~= proj_dl(l0),
        Some(rs) => proj_dl(l1) =~= dl_log::<M>(proj_dl(l0), id, rs, op),
    }
}
/// exactly one dead letter per failed delivery, none per success: the reason each outcome of a tell / an ask calls for
pub open spec fn dl_reason_tell(r: Result<()>) -> Option<DeadLetterReason> {
    match r {
        Err(Error::Send { .. }) => Some(DeadLetterReason::ActorStopped),
        Err(Error::Timeout { .. }) => Some(DeadLetterReason::Timeout),
        _ => None,
    }
}
pub open spec fn dl_reason_ask<R>(r: Result<R>) -> Option<DeadLetterReason> {
    match r {
        Err(Error::Send { .. }) => Some(DeadLetterReason::ActorStopped),
        Err(Error::Receive { .. }) => Some(DeadLetterReason::ReplyDropped),
        Err(Error::Timeout { .. }) => Some(DeadLetterReason::Timeout),
        _ => None,
    }
}

/// R_tell / R_blocking_tell (op = "tell" | "blocking_tell"): exactly one enqueue attempt on the one mailbox,
/// waiting send (Await marker, never TryFull); Ok iff accepted; the envelope embeds a strong reference to this
/// actor; exactly one dead letter (ActorStopped) iff rejected; Err is Send{identity = self.id}.
pub open spec fn r_tell<M>(this: HandleView, pid: int, l0: Seq<Eff>, l1: Seq<Eff>, r: Result<()>, op: Seq<char>) -> bool {
    let env = env_view(pid, None, this.mbx);
    let pre = l0.push(Eff::Await(AwaitKind::Send));
    match r {
        Ok(_) => l1 =~= pre.push(Eff::Enq(this.mbx, env)),
        Err(Error::Send { identity, .. }) => identity == this.id
            && l1 =~= dl_log::<M>(pre.push(Eff::Rejected(this.mbx, env)), this.id, DeadLetterReason::ActorStopped, op),
        Err(_) => false,
    }
}

/// R_tell_timeout(d): the tell relation with the timer resolution appended when the inner operation completed (its own
/// outcome passes through unchanged, no extra dead letter); or Err(Timeout{self.id, d, "tell"}) with the log cut back to
/// before the send suspended (nothing enqueued) plus exactly one Timeout dead letter.
pub open spec fn r_tell_timeout<M>(this: HandleView, pid: int, d: Duration, l0: Seq<Eff>, l1: Seq<Eff>, r: Result<()>, op: Seq<char>) -> bool {
    let env = env_view(pid, None, this.mbx);
    let pre = l0.push(Eff::Await(AwaitKind::Send));
    match r {
        Ok(_) => l1 =~= tm_log(pre.push(Eff::Enq(this.mbx, env)), d),
        Err(Error::Send { identity, .. }) => identity == this.id
            && l1 =~= tm_log(dl_log::<M>(pre.push(Eff::Rejected(this.mbx, env)), this.id, DeadLetterReason::ActorStopped, op), d),
        Err(Error::Timeout { identity, timeout, operation }) => identity == this.id && tm_fields_ok(timeout, d, operation@, op)
            && l1 =~= dl_log::<M>(tm_log(l0, d), this.id, DeadLetterReason::Timeout, op),
        Err(_) => false,
    }
}

/// C09's share of a tell: the send is the WAITING one (it begins with the `Await(Send)` marker - a `try_send` has none and may
/// answer `Full`), on this actor's one mailbox, and the call reports Ok iff that attempt was accepted.  Says nothing about what
/// else the call does (further suspension points, dead letters): those are other properties' business.
pub open spec fn r_waiting_send(this: HandleView, l0: Seq<Eff>, l1: Seq<Eff>, ok: bool) -> bool {
    let n = l0.len() as int;
    &&& l1.len() >= n + 2
    &&& l1[n] == Eff::Await(AwaitKind::Send)
    &&& match l1[n + 1] {
            Eff::Enq(c, _) => c == this.mbx && ok,
            Eff::Rejected(c, _) => c == this.mbx && !ok,
            _ => false,
        }
}

/// R_blocking_tell_timeout(d) (rule H): the helper thread ran `timeout(d, tell(msg))` on a private runtime and handed the
/// result back.  It is R_tell_timeout(d) with the inner tell's own dead-letter label ("tell") and the wrapper's label on the
/// Timeout branch; or, if tokio could not build the private runtime (environment fault, logged), Err(Send) naming this
/// actor with nothing sent and nothing recorded.
pub open spec fn r_tell_timeout2<M>(this: HandleView, pid: int, d: Duration, l0: Seq<Eff>, l1: Seq<Eff>, r: Result<()>, iop: Seq<char>, oop: Seq<char>) -> bool {
    let env = env_view(pid, None, this.mbx);
    let pre = l0.push(Eff::Await(AwaitKind::Send));
    match r {
        Ok(_) => l1 =~= tm_log(pre.push(Eff::Enq(this.mbx, env)), d),
        Err(Error::Send { identity, .. }) => identity == this.id
            && l1 =~= tm_log(dl_log::<M>(pre.push(Eff::Rejected(this.mbx, env)), this.id, DeadLetterReason::ActorStopped, iop), d),
        Err(Error::Timeout { identity, timeout, operation }) => identity == this.id && tm_fields_ok(timeout, d, operation@, oop)
            && l1 =~= dl_log::<M>(tm_log(l0, d), this.id, DeadLetterReason::Timeout, oop),
        Err(_) => false,
    }
}
pub open spec fn rt_build_failed(l0: Seq<Eff>, l1: Seq<Eff>) -> bool { l1 =~= l0.push(Eff::Opaque(OpaqueTag::RtBuildFailed)) }
pub open spec fn r_blocking_tell_timeout<M>(this: HandleView, pid: int, d: Duration, l0: Seq<Eff>, l1: Seq<Eff>, r: Result<()>) -> bool {
    (rt_build_failed(l0, l1) && (r matches Err(Error::Send { identity, .. }) && identity == this.id))
    || r_tell_timeout2::<M>(this, pid, d, l0, l1, r, "tell"@, "blocking_tell"@)
}
/// dead letters of a blocking call with a timeout: exactly one per failed delivery - labelled by the inner operation when the
/// inner operation failed, by the wrapper when the deadline passed - none on success (and none for the environment fault)
pub open spec fn r_dl2<M>(id: Identity, l0: Seq<Eff>, l1: Seq<Eff>, reason: Option<DeadLetterReason>, iop: Seq<char>, oop: Seq<char>) -> bool {
    match reason {
        None => proj_dl(l1) =~= proj_dl(l0),
        Some(DeadLetterReason::Timeout) => proj_dl(l1) =~= dl_log::<M>(proj_dl(l0), id, DeadLetterReason::Timeout, oop),
        Some(rs) => proj_dl(l1) =~= dl_log::<M>(proj_dl(l0), id, rs, iop),
    }
}

/// the request id carried by the envelope of the enqueue attempt logged at index i
pub open spec fn req_at(l: Seq<Eff>, i: int) -> int {
    if 0 <= i < l.len() { match l[i] {
        Eff::Enq(_, MsgView::Envelope { req: Some(q), .. }) => q,
        Eff::Rejected(_, MsgView::Envelope { req: Some(q), .. }) => q,
        _ => 0 } } else { 0 }
}

/// the ask-side log up to and including the send attempt
pub open spec fn ask_sent(this: HandleView, pid: int, q: int, l0: Seq<Eff>) -> Seq<Eff> {
    l0.push(Eff::Await(AwaitKind::Send)).push(Eff::Enq(this.mbx, env_view(pid, Some(q), this.mbx)))
}

/// the log of one ask exchange as a function of its outcome (q = the fresh request id, vid = id of a received value that
/// failed to downcast)
pub open spec fn ask_core_log<M, R>(this: HandleView, pid: int, q: int, vid: int, l0: Seq<Eff>, r: Result<R>, op: Seq<char>) -> Seq<Eff> {
    let sent = ask_sent(this, pid, q, l0);
    match r {
        Ok(v) => sent.push(Eff::Await(AwaitKind::Reply)).push(Eff::ReplyRecv(q, val_id(v))),
        Err(Error::Send { .. }) => dl_log::<M>(l0.push(Eff::Await(AwaitKind::Send)).push(Eff::Rejected(this.mbx, env_view(pid, Some(q), this.mbx))),
                                             this.id, DeadLetterReason::ActorStopped, op),
        Err(Error::Receive { .. }) => dl_log::<M>(sent.push(Eff::Await(AwaitKind::Reply)).push(Eff::ReplyClosed(q)), this.id, DeadLetterReason::ReplyDropped, op),
        Err(Error::Downcast { .. }) => sent.push(Eff::Await(AwaitKind::Reply)).push(Eff::ReplyRecv(q, vid)),
        Err(_) => l0,
    }
}
/// which results an ask may produce, and that every error names this actor
pub open spec fn ask_result_ok<R>(this: HandleView, r: Result<R>) -> bool {
    match r {
        Ok(_) => true,
        Err(Error::Send { identity, .. }) => identity == this.id,
        Err(Error::Receive { identity, .. }) => identity == this.id,
        Err(Error::Downcast { identity, .. }) => identity == this.id,
        Err(_) => false,
    }
}
pub open spec fn recv_vid_at(l: Seq<Eff>, i: int) -> int {
    if 0 <= i < l.len() { match l[i] { Eff::ReplyRecv(_, v) => v, _ => 0 } } else { 0 }
}

/// R_ask / R_blocking_ask (without deadlock-detection bookkeeping): a fresh request id, one enqueue attempt, then one wait on
/// *that* request; Ok(v) only with the value received on it; Receive only when the reply sender was dropped; dead letters
/// exactly on Send (ActorStopped) and Receive (ReplyDropped).
pub open spec fn r_ask_core<M, R>(this: HandleView, pid: int, l0: Seq<Eff>, l1: Seq<Eff>, r: Result<R>, op: Seq<char>) -> bool {
    ask_result_ok(this, r)
    && l1 =~= ask_core_log::<M, R>(this, pid, req_at(l1, l0.len() as int + 1), recv_vid_at(l1, l1.len() - 1), l0, r, op)
}

/// R_blocking_ask_timeout(d) (rule H): the helper thread - which has no task-local actor identity, so the ask is untracked and
/// the wait-for graph is not touched - ran `timeout(d, ask(msg))` on a private runtime and handed the result back.  It is
/// R_ask_timeout(d) for an untracked caller with the inner ask's own dead-letter label ("ask") and the wrapper's label on the
/// Timeout branch; or the environment fault (no runtime): Err(Send) naming this actor, nothing sent, nothing recorded.
pub open spec fn r_ask_timeout_untracked2<M, R>(this: HandleView, pid: int, d: Duration, l0: Seq<Eff>, l1: Seq<Eff>, r: Result<R>, iop: Seq<char>, oop: Seq<char>) -> bool {
    let q = req_at(l1, l0.len() as int + 1);
    match r {
        Err(Error::Timeout { identity, timeout, operation }) => identity == this.id && tm_fields_ok(timeout, d, operation@, oop)
            && (l1 =~= dl_log::<M>(tm_log(l0, d), this.id, DeadLetterReason::Timeout, oop)
                || l1 =~= dl_log::<M>(tm_log(ask_sent(this, pid, q, l0), d), this.id, DeadLetterReason::Timeout, oop)),
        _ => tm_last_ok(l1, d) && r_ask_core::<M, R>(this, pid, l0, tm_strip(l1), r, iop),
    }
}
pub open spec fn r_blocking_ask_timeout<M, R>(this: HandleView, pid: int, d: Duration, w0: World, w1: World, r: Result<R>) -> bool {
    &&& w1.graph() == w0.graph()
    &&& ((rt_build_failed(w0.log(), w1.log()) && (r matches Err(Error::Send { identity, .. }) && identity == this.id))
         || r_ask_timeout_untracked2::<M, R>(this, pid, d, w0.log(), w1.log(), r, "ask"@, "blocking_ask"@))
}

/// R_kill: never suspends (no Await), exactly one try_send of Terminate on the *control* channel, no mailbox effect,
/// Ok for Ok / Full / Closed.
pub open spec fn r_kill(this: HandleView, l0: Seq<Eff>, l1: Seq<Eff>, r: Result<()>) -> bool {
    r is Ok && (l1 =~= l0.push(Eff::Enq(this.ctl, MsgView::Signal))
             || l1 =~= l0.push(Eff::TryFull(this.ctl, MsgView::Signal))
             || l1 =~= l0.push(Eff::Rejected(this.ctl, MsgView::Signal)))
}

/// R_stop: exactly one waiting enqueue attempt of the in-band stop marker (which embeds a strong reference) on the one
/// mailbox; Ok in both outcomes; no dead letter.
pub open spec fn r_stop(this: HandleView, l0: Seq<Eff>, l1: Seq<Eff>, r: Result<()>) -> bool {
    let pre = l0.push(Eff::Await(AwaitKind::Send));
    r is Ok && (l1 =~= pre.push(Eff::Enq(this.mbx, MsgView::StopMark { holds: this.mbx }))
             || l1 =~= pre.push(Eff::Rejected(this.mbx, MsgView::StopMark { holds: this.mbx })))
}

/// is_alive: both channels read, alive iff neither is closed (short-circuit: the control channel is read only if the
/// mailbox is open)
pub open spec fn r_is_alive(this: HandleView, l0: Seq<Eff>, l1: Seq<Eff>, r: bool) -> bool {
    let b = last_bool(l1);
    (l1 =~= l0.push(Eff::ReadClosed(this.mbx, true)) && !r)
    || (l1 =~= l0.push(Eff::ReadClosed(this.mbx, false)).push(Eff::ReadClosed(this.ctl, b)) && r == !b)
}
pub open spec fn last_bool(l: Seq<Eff>) -> bool {
    if l.len() == 0 { false } else { match l.last() { Eff::ReadClosed(_, b) => b, Eff::ReadStrong(_, b) => b, Eff::Upgrade(_, b) => b, _ => false } }
}
pub open spec fn last_recv_vid(l: Seq<Eff>) -> int {
    if l.len() == 0 { 0 } else { match l.last() { Eff::ReplyRecv(_, v) => v, _ => 0 } }
}

#[cfg(feature = "test-utils")]
pub open spec fn dl_counter_step() -> nat { 1 }
#[cfg(not(feature = "test-utils"))]
pub open spec fn dl_counter_step() -> nat { 0 }

/// ambient state except the dead-letter counter (record may bump it) and the log
pub open spec fn same_ambient_but_dl(w0: World, w1: World) -> bool {
    &&& w1.current_actor() == w0.current_actor()
    &&& w1.lock_held() == w0.lock_held()
    &&& w1.poisoned() == w0.poisoned()
    &&& w1.graph() == w0.graph()
    &&& w1.mmon() == w0.mmon()
    &&& w1.cap_cell() == w0.cap_cell()
    &&& w1.id_floor() == w0.id_floor()
    &&& w1.chan_floor() == w0.chan_floor()
    &&& w1.own_strong() == w0.own_strong()
    &&& w1.cells() == w0.cells()
}

#[cfg(any(not(feature = "deadlock-detection"), feature = "vx-nodd"))]
pub open spec fn r_ask<M, R>(this: HandleView, pid: int, w0: World, w1: World, r: Result<R>, op: Seq<char>) -> bool {
    r_ask_core::<M, R>(this, pid, w0.log(), w1.log(), r, op)
}

/// R_ask_timeout(d): the inner ask outcome passes through unchanged (timer resolution appended), or Err(Timeout{self.id, d, op})
/// with the log cut at one of ask's two suspension points — before the send completed (nothing enqueued) or while waiting for
/// the reply — plus exactly one Timeout dead letter.
#[cfg(any(not(feature = "deadlock-detection"), feature = "vx-nodd"))]
pub open spec fn r_ask_timeout<M, R>(this: HandleView, pid: int, d: Duration, w0: World, w1: World, r: Result<R>, op: Seq<char>) -> bool {
    let l0 = w0.log();
    let l1 = w1.log();
    let q = req_at(l1, l0.len() as int + 1);
    match r {
        Err(Error::Timeout { identity, timeout, operation }) => identity == this.id && tm_fields_ok(timeout, d, operation@, op)
            && (l1 =~= dl_log::<M>(tm_log(l0, d), this.id, DeadLetterReason::Timeout, op)
                || l1 =~= dl_log::<M>(tm_log(ask_sent(this, pid, q, l0), d), this.id, DeadLetterReason::Timeout, op)),
        _ => tm_last_ok(l1, d) && r_ask_core::<M, R>(this, pid, l0, tm_strip(l1), r, op),
    }
}

/// R_ask_join: an ask whose reply is a JoinHandle, then exactly one wait on *that* handle; the task's output is returned,
/// a JoinError is reported as Error::Join{identity: self.id, source: that error}; ask errors pass through.
pub open spec fn r_ask_join<M, R>(this: HandleView, pid: int, w0: World, w1: World, r: Result<R>) -> bool {
    let l1 = w1.log();
    match r {
        Ok(v) => l1.len() >= 2 && (l1.last() matches Eff::Joined(t, true) && val_id(v) == join_output(t)
                    && l1[l1.len() - 2] == Eff::Await(AwaitKind::Join)
                    && ask_ok_with_handle::<M, R>(this, pid, w0, l1.drop_last().drop_last(), t)),
        Err(Error::Join { identity, source }) => identity == this.id && l1.len() >= 2
                    && (l1.last() matches Eff::Joined(t, false) && join_error_id(source) == t
                    && l1[l1.len() - 2] == Eff::Await(AwaitKind::Join)
                    && ask_ok_with_handle::<M, R>(this, pid, w0, l1.drop_last().drop_last(), t)),
        Err(e) => exists|w_mid: World| w_mid.log() == l1 && #[trigger] r_ask::<M, JoinHandle<R>>(this, pid, w0, w_mid, Err(e), "ask"@),
    }
}
pub open spec fn ask_ok_with_handle<M, R>(this: HandleView, pid: int, w0: World, l: Seq<Eff>, task: int) -> bool {
    exists|h: JoinHandle<R>, w_mid: World| w_mid.log() =~= l && h.task() == task
        && #[trigger] r_ask::<M, JoinHandle<R>>(this, pid, w0, w_mid, Ok(h), "ask"@)
}

// ---------------------------------------------------------------- weak handles
pub open spec fn r_upgrade(this: HandleView, l0: Seq<Eff>, l1: Seq<Eff>, some: bool) -> bool {
    let b = last_bool(l1);
    (l1 =~= l0.push(Eff::Upgrade(this.mbx, false)) && !some)
    || (l1 =~= l0.push(Eff::Upgrade(this.mbx, true)).push(Eff::Upgrade(this.ctl, b)) && some == b)
}
pub open spec fn r_weak_alive(this: HandleView, l0: Seq<Eff>, l1: Seq<Eff>, r: bool) -> bool {
    let b = last_bool(l1);
    (l1 =~= l0.push(Eff::ReadStrong(this.mbx, false)) && !r)
    || (l1 =~= l0.push(Eff::ReadStrong(this.mbx, true)).push(Eff::ReadStrong(this.ctl, b)) && r == b)
}

// ---------------------------------------------------------------- spawn
pub open spec fn default_capacity(w: World) -> usize {
    match w.cap_cell() { Some(v) => v, None => 32 }
}
/// exactly one lifecycle task, on the receivers of the returned reference's channels, with the caller's args (the channel
/// bounds are stated separately through Sender::cap())
pub open spec fn spawn_tail(base: Seq<Eff>, r: HandleView, cap: usize, args_id: int) -> Seq<Eff> {
    base.push(Eff::Spawned(r.mbx, r.ctl, args_id))
}

// ---------------------------------------------------------------- deadlock detection (C14, C15)
// reach(g, a, b): a chain of >= 1 wait-for edges leads from a to b.  has_path is proved sound AND complete
// against it (completeness by the pigeonhole lemma lemma_reach_bounded: a shortest chain visits distinct keys).
#[cfg(feature = "deadlock-detection")]
pub open spec fn walk(g: Map<u64, Identity>, a: u64, n: nat) -> Option<u64>
    decreases n
{
    if n == 0 { Some(a) } else {
        match walk(g, a, (n - 1) as nat) {
            Some(x) => if g.contains_key(x) { Some(g[x].id) } else { None },
            None => None,
        }
    }
}
#[cfg(feature = "deadlock-detection")]
pub open spec fn reach(g: Map<u64, Identity>, a: u64, b: u64) -> bool {
    exists|n: nat| n >= 1 && #[trigger] walk(g, a, n) == Some(b)
}

#[cfg(feature = "deadlock-detection")]
pub proof fn lemma_walk_none_stays(g: Map<u64, Identity>, a: u64, m: nat, n: nat)
    requires walk(g, a, m) is None, m <= n
    ensures walk(g, a, n) is None
    decreases n
{
    if n > m { lemma_walk_none_stays(g, a, m, (n - 1) as nat); }
}

#[cfg(feature = "deadlock-detection")]
pub proof fn lemma_no_reach_after_none(g: Map<u64, Identity>, a: u64, b: u64, i: nat)
    requires
        walk(g, a, i + 1) is None,
        forall|j: nat| 1 <= j <= i ==> walk(g, a, j) != Some(b),
    ensures !reach(g, a, b)
{
    assert forall|n: nat| n >= 1 implies #[trigger] walk(g, a, n) != Some(b) by {
        if n > i { lemma_walk_none_stays(g, a, i + 1, n); }
    }
}

/// walk is additive: walking j more steps from walk(i)
#[cfg(feature = "deadlock-detection")]
pub proof fn lemma_walk_add(g: Map<u64, Identity>, a: u64, i: nat, k: nat)
    requires walk(g, a, i) is Some
    ensures walk(g, a, i + k) == walk(g, walk(g, a, i)->Some_0, k)
    decreases k
{
    if k > 0 {
        lemma_walk_add(g, a, i, (k - 1) as nat);
        assert(i + k - 1 == i + (k - 1) as nat);
    }
}

#[cfg(feature = "deadlock-detection")]
pub proof fn lemma_walk_prefix_some(g: Map<u64, Identity>, a: u64, m: nat, n: nat)
    requires walk(g, a, n) is Some, m <= n
    ensures walk(g, a, m) is Some
    decreases n
{
    if m < n {
        lemma_walk_prefix_some(g, a, m, (n - 1) as nat);
    }
}

/// the set of nodes visited in steps 0..n (exclusive)
#[cfg(feature = "deadlock-detection")]
pub open spec fn visited(g: Map<u64, Identity>, a: u64, n: nat) -> Set<u64>
    decreases n
{
    if n == 0 { Set::empty() } else { visited(g, a, (n - 1) as nat).insert(walk(g, a, (n - 1) as nat)->Some_0) }
}

#[cfg(feature = "deadlock-detection")]
pub proof fn lemma_visited(g: Map<u64, Identity>, a: u64, n: nat)
    requires
        walk(g, a, n) is Some,
        forall|i: nat, j: nat| i < j < n ==> walk(g, a, i) != walk(g, a, j),
    ensures
        visited(g, a, n).len() == n,
        visited(g, a, n).subset_of(g.dom()),
        forall|x: u64| visited(g, a, n).contains(x) ==> exists|i: nat| i < n && walk(g, a, i) == Some(x),
    decreases n
{
    if n > 0 {
        let m = (n - 1) as nat;
        lemma_walk_prefix_some(g, a, m, n);
        lemma_visited(g, a, m);
        let x = walk(g, a, m)->Some_0;
        // x is a key (it has a successor since walk(n) is Some)
        assert(g.contains_key(x));
        // x not visited before
        if visited(g, a, m).contains(x) {
            let i = choose|i: nat| i < m && walk(g, a, i) == Some(x);
            assert(walk(g, a, i) == walk(g, a, m));
            assert(false);
        }
        assert forall|y: u64| visited(g, a, n).contains(y) implies exists|i: nat| i < n && walk(g, a, i) == Some(y) by {
            if y == x { assert(walk(g, a, m) == Some(y)); }
            else { let i = choose|i: nat| i < m && walk(g, a, i) == Some(y); assert(i < n); }
        }
    }
}

#[cfg(feature = "deadlock-detection")]
pub proof fn lemma_reach_bounded(g: Map<u64, Identity>, a: u64, b: u64)
    requires reach(g, a, b)
    ensures exists|n: nat| 1 <= n <= g.dom().len() && #[trigger] walk(g, a, n) == Some(b)
{
    let n0 = choose|n: nat| n >= 1 && #[trigger] walk(g, a, n) == Some(b);
    lemma_min_exists(g, a, b, n0);
    let n = choose|n: nat| 1 <= n <= n0 && #[trigger] walk(g, a, n) == Some(b) && forall|m: nat| 1 <= m < n ==> walk(g, a, m) != Some(b);
    // distinctness of walk(0..n)
    assert forall|i: nat, j: nat| i < j < n implies walk(g, a, i) != walk(g, a, j) by {
        if walk(g, a, i) == walk(g, a, j) {
            lemma_walk_prefix_some(g, a, j, n);
            lemma_walk_prefix_some(g, a, i, n);
            let k = (n - j) as nat;
            lemma_walk_add(g, a, j, k);
            lemma_walk_add(g, a, i, k);
            assert(j + k == n);
            assert(walk(g, a, i + k) == Some(b));
            assert(1 <= i + k < n);
            assert(false);
        }
    }
    lemma_visited(g, a, n);
    vstd::set_lib::lemma_len_subset(visited(g, a, n), g.dom());
}

#[cfg(feature = "deadlock-detection")]
pub proof fn lemma_min_exists(g: Map<u64, Identity>, a: u64, b: u64, n0: nat)
    requires n0 >= 1, walk(g, a, n0) == Some(b)
    ensures exists|n: nat| 1 <= n <= n0 && #[trigger] walk(g, a, n) == Some(b) && forall|m: nat| 1 <= m < n ==> walk(g, a, m) != Some(b)
    decreases n0
{
    if exists|m: nat| 1 <= m < n0 && walk(g, a, m) == Some(b) {
        let m = choose|m: nat| 1 <= m < n0 && walk(g, a, m) == Some(b);
        lemma_min_exists(g, a, b, m);
    }
}


#[cfg(feature = "deadlock-detection")]
pub open spec fn lock_map_at(l: Seq<Eff>, i: int) -> Map<u64, Identity> {
    if 0 <= i < l.len() { match l[i] { Eff::Lock(g) => g, _ => Map::empty() } } else { Map::empty() }
}

/// WaitForGuard(key) dropped: one lock acquisition, exactly its own key removed, lock released; with a poisoned lock
/// nothing happens (and nothing panics).
#[cfg(all(feature = "deadlock-detection", feature = "vx-nodd"))]
pub open spec fn guard_removed(key: u64, w0: World, w1: World) -> bool { w1.log() =~= w0.log() && !w1.lock_held() }
#[cfg(all(feature = "deadlock-detection", not(feature = "vx-nodd")))]
pub open spec fn guard_removed(key: u64, w0: World, w1: World) -> bool {
    let g = lock_map_at(w1.log(), w0.log().len() as int);
    if w0.poisoned() { w1.log() =~= w0.log() && w1.graph() == w0.graph() && !w1.lock_held() }
    else { w1.log() =~= w0.log().push(Eff::Lock(g)).push(Eff::Unlock(g.remove(key))) && w1.graph() == g.remove(key) && !w1.lock_held() }
}
#[cfg(feature = "deadlock-detection")]
pub open spec fn guard_dropped(g: Option<WaitForGuard>, w0: World, w1: World) -> bool {
    &&& (match g { Some(x) => guard_removed(x.0, w0, w1), None => w1.log() =~= w0.log() && w1.graph() == w0.graph() && !w1.lock_held() })
    &&& w1.current_actor() == w0.current_actor() && w1.poisoned() == w0.poisoned() && w1.mmon() == w0.mmon()
    &&& w1.cap_cell() == w0.cap_cell() && w1.id_floor() == w0.id_floor() && w1.chan_floor() == w0.chan_floor()
    &&& w1.dl_count() == w0.dl_count() && w1.own_strong() == w0.own_strong() && w1.cells() == w0.cells()
}

/// R_ask with deadlock detection.  Untracked caller (no task-local identity): exactly the core relation, the graph and its
/// lock are never touched.  Tracked caller c: under ONE lock acquisition the cycle check (self-ask or a chain of edges from
/// the callee back to c => the function does not return: deliberate panic) and then the insertion of edge c -> callee;
/// the core exchange; on every exit the guard removes exactly c's edge.
#[cfg(all(feature = "deadlock-detection", not(feature = "vx-nodd")))]
pub open spec fn r_ask_tracked_log<M, R>(this: HandleView, pid: int, c: Identity, l0: Seq<Eff>, l1: Seq<Eff>, r: Result<R>, op: Seq<char>) -> bool {
    let g = lock_map_at(l1, l0.len() as int);
    let g2 = lock_map_at(l1, l1.len() - 2);
    let pre = l0.push(Eff::Lock(g)).push(Eff::Unlock(g.insert(c.id, this.id)));
    &&& c.id != this.id.id
    &&& !reach(g, this.id.id, c.id)
    &&& ask_result_ok(this, r)
    &&& l1 =~= ask_core_log::<M, R>(this, pid, req_at(l1, l0.len() as int + 3), recv_vid_at(l1, l1.len() - 3), pre, r, op)
                .push(Eff::Lock(g2)).push(Eff::Unlock(g2.remove(c.id)))
}
#[cfg(all(feature = "deadlock-detection", not(feature = "vx-nodd")))]
pub open spec fn r_ask<M, R>(this: HandleView, pid: int, w0: World, w1: World, r: Result<R>, op: Seq<char>) -> bool {
    match w0.current_actor() {
        None => r_ask_core::<M, R>(this, pid, w0.log(), w1.log(), r, op) && w1.graph() == w0.graph(),
        Some(c) => r_ask_tracked_log::<M, R>(this, pid, c, w0.log(), w1.log(), r, op)
            && w1.graph() == lock_map_at(w1.log(), w1.log().len() - 2).remove(c.id),
    }
}
/// R_ask_timeout with deadlock detection: as without, and for a tracked caller the wait-for edge is gone afterwards whatever
/// the outcome (completion, error, or cancellation by the timer: the guard is dropped with the cancelled future).
#[cfg(all(feature = "deadlock-detection", not(feature = "vx-nodd")))]
pub open spec fn r_ask_timeout<M, R>(this: HandleView, pid: int, d: Duration, w0: World, w1: World, r: Result<R>, op: Seq<char>) -> bool {
    let l0 = w0.log();
    let l1 = w1.log();
    match w0.current_actor() {
        None => {
            let q = req_at(l1, l0.len() as int + 1);
            w1.graph() == w0.graph() && match r {
                Err(Error::Timeout { identity, timeout, operation }) => identity == this.id && tm_fields_ok(timeout, d, operation@, op)
                    && (l1 =~= dl_log::<M>(tm_log(l0, d), this.id, DeadLetterReason::Timeout, op)
                        || l1 =~= dl_log::<M>(tm_log(ask_sent(this, pid, q, l0), d), this.id, DeadLetterReason::Timeout, op)),
                _ => tm_last_ok(l1, d) && r_ask_core::<M, R>(this, pid, l0, tm_strip(l1), r, op),
            }
        },
        Some(c) => {
            let g = lock_map_at(l1, l0.len() as int);
            let pre = l0.push(Eff::Lock(g)).push(Eff::Unlock(g.insert(c.id, this.id)));
            let q = req_at(l1, l0.len() as int + 3);
            &&& c.id != this.id.id
            &&& !reach(g, this.id.id, c.id)
            &&& !w1.graph().contains_key(c.id)
            &&& match r {
                Err(Error::Timeout { identity, timeout, operation }) => identity == this.id && tm_fields_ok(timeout, d, operation@, op)
                    && (l1 =~= dl_log::<M>(tm_log(pre, d), this.id, DeadLetterReason::Timeout, op)
                        || l1 =~= dl_log::<M>(tm_log(ask_sent(this, pid, q, pre), d), this.id, DeadLetterReason::Timeout, op)),
                _ => tm_last_ok(l1, d) && r_ask_tracked_log::<M, R>(this, pid, c, l0, tm_strip(l1), r, op),
            }
        },
    }
}

/// C15 soundness: what the deliberate deadlock panic needs in order to be justified — a self-ask, or a chain of edges from the
/// callee back to the caller every one of which is an ask that has NOT been answered yet.  The graph stores edges, not whether
/// the ask behind an edge has already been answered (an edge outlives its reply until the asker is polled again), so
/// `chain_unanswered` is information the code does not have: uninterpreted.
#[cfg(feature = "deadlock-detection")]
pub uninterp spec fn chain_unanswered(g: Map<u64, Identity>, from: u64, to: u64) -> bool;

pub open spec fn same_ambient_but_dl_graph(w0: World, w1: World) -> bool {
    &&& w1.current_actor() == w0.current_actor()
    &&& w1.lock_held() == w0.lock_held()
    &&& w1.poisoned() == w0.poisoned()
    &&& w1.mmon() == w0.mmon()
    &&& w1.cap_cell() == w0.cap_cell()
    &&& w1.id_floor() == w0.id_floor()
    &&& w1.chan_floor() == w0.chan_floor()
    &&& w1.own_strong() == w0.own_strong()
    &&& w1.cells() == w0.cells()
}

// ---------------------------------------------------------------- metrics collector (C20)
#[cfg(feature = "metrics")]
impl MetricsCollector {
    /// a collector is identified by its message-count cell
    pub open spec fn cid(&self) -> int { self.message_count.cell() }
    pub open spec fn cells_known(&self, w: World) -> bool {
        let a = self.message_count.cell(); let b = self.total_processing_nanos.cell(); let c = self.max_processing_nanos.cell();
        let d = self.last_activity_millis.cell(); let e = self.error_count.cell();
        &&& w.cells().contains_key(a) && w.cells().contains_key(b) && w.cells().contains_key(c) && w.cells().contains_key(d) && w.cells().contains_key(e)
        &&& a != b && a != c && a != d && a != e && b != c && b != d && b != e && c != d && c != e && d != e
        &&& a != cell_ACTOR_IDS() && a != cell_DEAD_LETTER_COUNT() && b != cell_ACTOR_IDS() && b != cell_DEAD_LETTER_COUNT()
        &&& c != cell_ACTOR_IDS() && c != cell_DEAD_LETTER_COUNT()
    }
    /// the arithmetic invariant (mathematical integers): total <= count * max
    pub open spec fn coll_inv(&self, w: World) -> bool {
        w.cells()[self.total_processing_nanos.cell()] as int
            <= (w.cells()[self.message_count.cell()] as int) * (w.cells()[self.max_processing_nanos.cell()] as int)
    }
}
#[cfg(feature = "metrics")]
pub open spec fn sat_nanos(d: Duration) -> nat { if dur_nanos(d) <= u64::MAX as nat { dur_nanos(d) } else { u64::MAX as nat } }
#[cfg(feature = "metrics")]
pub open spec fn sat_add_spec(a: nat, b: nat) -> nat { if a + b <= u64::MAX as nat { a + b } else { u64::MAX as nat } }
#[cfg(feature = "metrics")]
pub open spec fn avg_spec(total: nat, count: nat) -> nat { if count > 0 { total / count } else { 0 } }
#[cfg(feature = "metrics")]
pub proof fn lemma_coll_inv_step(count: int, total: int, max: int, n: int)
    requires 0 <= count, 0 <= total, 0 <= max, 0 <= n, total <= count * max
    ensures
        total + n <= (count + 1) * (if max >= n { max } else { n }),
        count * max <= (count + 1) * (if max >= n { max } else { n }),
{
    let m2 = if max >= n { max } else { n };
    assert(count * max <= count * m2) by(nonlinear_arith) requires 0 <= count, max <= m2;
    assert((count + 1) * m2 == count * m2 + m2) by(nonlinear_arith);
}
#[cfg(feature = "metrics")]
pub proof fn lemma_avg_le_max(total: int, count: int, max: int)
    requires 0 <= total, 0 < count, 0 <= max, total <= count * max
    ensures total / count <= max
{
    assert(total / count <= max) by(nonlinear_arith) requires 0 <= total, 0 < count, 0 <= max, total <= count * max;
}

// ---------------------------------------------------------------- Lemma L1: composition over a whole mailbox history (C01, C02)
/// what a mailbox carries, in the vocabulary of the effect relations: an envelope (payload id) or the in-band stop marker
pub enum Item { Env(int), Stop }

/// payload ids of the envelopes before the first stop marker
pub open spec fn ids_until_stop(s: Seq<Item>) -> Seq<int>
    decreases s.len()
{
    if s.len() == 0 { Seq::empty() } else { match s[0] {
        Item::Stop => Seq::empty(),
        Item::Env(id) => seq![id] + ids_until_stop(s.subrange(1, s.len() as int)),
    } }
}
pub open spec fn has_stop(s: Seq<Item>) -> bool { exists|i: int| 0 <= i < s.len() && s[i] is Stop }
pub open spec fn is_prefix<A>(p: Seq<A>, s: Seq<A>) -> bool { p.len() <= s.len() && p =~= s.subrange(0, p.len() as int) }

/// monitor (lifecycle_post): nothing is taken after a stop marker was taken
pub open spec fn stop_is_last(taken: Seq<Item>) -> bool {
    forall|i: int| 0 <= i < taken.len() && taken[i] is Stop ==> i == taken.len() - 1
}

pub proof fn lemma_prefix_ids(t: Seq<Item>, a: Seq<Item>)
    requires is_prefix(t, a)
    ensures is_prefix(ids_until_stop(t), ids_until_stop(a)),
            has_stop(t) ==> ids_until_stop(t) =~= ids_until_stop(a),
    decreases t.len()
{
    if t.len() == 0 {
    } else {
        assert(t[0] == a[0]);
        match t[0] {
            Item::Stop => {},
            Item::Env(id) => {
                let t1 = t.subrange(1, t.len() as int);
                let a1 = a.subrange(1, a.len() as int);
                assert(is_prefix(t1, a1)) by {
                    assert(t1 =~= a1.subrange(0, t1.len() as int));
                }
                lemma_prefix_ids(t1, a1);
                if has_stop(t) {
                    let i = choose|i: int| 0 <= i < t.len() && t[i] is Stop;
                    assert(i >= 1);
                    assert(t1[i - 1] is Stop);
                    assert(has_stop(t1));
                }
                let x = ids_until_stop(t1); let y = ids_until_stop(a1);
                assert((seq![id] + x) =~= (seq![id] + y).subrange(0, (seq![id] + x).len() as int));
            }
        }
    }
}

/// L1 (C01 + C02, composition over a whole history of ONE mailbox).
/// acc    : items in the order the mailbox accepted them                      (send relations: one queue, Ok iff accepted)
/// taken  : items in the order the loop took them                            (A1: FIFO, each accepted item taken at most once)
/// handled: payload ids in the order handlers ran                            (monitor: exactly the taken envelopes, inline, in order)
pub proof fn lemma_l1(acc: Seq<Item>, taken: Seq<Item>, handled: Seq<int>)
    requires
        is_prefix(taken, acc),                    // A1
        stop_is_last(taken),                      // monitor: Stopped is absorbing
        handled =~= ids_until_stop(taken),        // monitor: Handled(id) exactly once per taken envelope, before the next poll
    ensures
        // handled messages are accepted ones, in acceptance order, each at most once per acceptance; none accepted behind the marker
        is_prefix(handled, ids_until_stop(acc)), /*L:L1.handled_is_ordered_prefix_of_accepted_before_stop*/
        // if the loop took the stop marker, everything accepted before it was handled (and nothing else)
        has_stop(taken) ==> handled =~= ids_until_stop(acc), /*L:L1.stop_marker_taken_implies_all_earlier_work_handled*/
{
    lemma_prefix_ids(taken, acc);
}
