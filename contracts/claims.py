"""What is claimed per property (feeds MANIFEST.json through tools/mkmanifest.py)."""
NOTES = ("All checks share one engine: ./check <id> extracts the functions the property depends on from /repo/src "
         "(current working tree), injects the contracts of contracts/specs.py, and runs Verus; exit 2 = undecided "
         "(lost anchor / construct outside the extraction rules / solver limit), never an alarm.")

LC_NOTE = ("Trusted: shim contracts for tokio mpsc/select!/task-local (A1,A3,A5), arbitrary hook bodies advancing the ghost monitor "
           "by one event per call, extraction rules R1-R11 (diff per function in build/<fs>/extraction_report.json), Verus/Z3. "
           "Panics (unwinding) are Rust/tokio semantics (A6,A7) and not decided.")

CLAIMS = {
    "C04": dict(
        text="run_actor_lifecycle (extracted from src/actor.rs every run) satisfies the safety-monitor postcondition for all "
             "iterations and all hook outcomes: on_start once and first, on_stop at most once and last, only for the five causes, "
             "killed iff a signal was consumed; loop invariant discharged by Verus, no bound.",
        note=LC_NOTE),
    "C05": dict(
        text="The ActorResult returned by run_actor_lifecycle is tied by postcondition to the monitor history (variant, phase, killed, the very "
             "error value, the actor instance the hooks ran on); accessor laws of ActorResult are postconditions proved for every T.",
        note=LC_NOTE),
    "C06": dict(
        text="Monitor rule: a handler runs only in a pass whose control-channel poll was pending and on_stop(true) follows a consumed signal directly; "
             "kill() contract: no suspension, one try_send on the control channel, Ok for Ok/Full/Closed.",
        note=LC_NOTE),
    "C08": dict(
        text="Monitor rules on Poll(Idle)/RunDone discharged for all iterations: on_run polled only after pending control and mailbox polls, never after Ok(false), "
             "Err leads to on_stop(false) and Failed.",
        note=LC_NOTE),
}

NOT_CLAIMED = {
    "C19": "not applicable: proc-macro token generation (syn/quote) is outside every installed deductive verifier; the runtime half is an obligation of handle_message reported under C03",
}
_PENDING = "contracts for this property are not finished yet; no claim is made until its obligations are discharged by ./check"
for _p in ["C01", "C02", "C03", "C07", "C09", "C10", "C11", "C12", "C13", "C14", "C15", "C16", "C17", "C18", "C20"]:
    NOT_CLAIMED.setdefault(_p, _PENDING)
