"""What is claimed per property (feeds MANIFEST.json through tools/mkmanifest.py)."""
NOTES = ("All checks share one engine: ./check <id> extracts the functions the property depends on from /repo/src "
         "(current working tree), injects the contracts of contracts/specs.py, and runs Verus; exit 2 = undecided "
         "(lost anchor / construct outside the extraction rules / solver limit), never an alarm.")

LC_NOTE = ("Trusted: shim contracts for tokio mpsc/select!/task-local (A1,A3,A5), arbitrary hook bodies advancing the ghost monitor "
           "by one event per call, extraction rules R1-R11 (diff per function in build/<fs>/extraction_report.json), Verus/Z3. "
           "Panics (unwinding) are Rust/tokio semantics (A6,A7) and not decided.")

SEND_NOTE = ("Trusted: shim contracts for tokio mpsc/oneshot/timeout (A1,A2,A4,A5: linearizable FIFO, send Ok iff enqueued, cancel-safe send, "
             "timeout polls inner first), effect-log model of suspension points (rule T), extraction rules, Verus/Z3. The composition from per-call "
             "relations + lifecycle monitor to the whole-history statement is lemma L1 (contracts/vocab.rs, machine-checked): its hypotheses are A1 (taken order is a "
             "prefix of accepted order) and the monitor facts (nothing taken after the stop marker; handled = taken envelopes in order); linking those hypotheses to the "
             "per-function contracts is argued in DESIGN.md section 3.")
CLAIMS = {
    "C01": dict(
        text="Per-function obligations that together give exactly-once: tell/ask/*_with_timeout/stop each make exactly one waiting enqueue attempt on the one "
             "mailbox, return Ok iff accepted, and a timed-out tell has enqueued nothing (rule T cut); every envelope embeds a strong reference (mpsc send "
             "precondition); the lifecycle monitor accepts Handled(id) only for the envelope just taken, exactly once, and leaves the loop only through a cause. "
             "Discharged by Verus for all inputs and all loop iterations.",
        note=SEND_NOTE + " blocking_tell/blocking_ask WITH a timeout: blocking_*_with_timeout_impl satisfy r_blocking_tell_timeout / r_blocking_ask_timeout (rule H + rule T: "
             "Err(Timeout) only with the log cut before the enqueue or, for ask, while waiting for the reply)." + " The thread-based timeout variants blocking_*_with_timeout_impl are under contract through rule H (DESIGN 8.13): the helper thread's body is read where it is written because the caller only blocks in recv (A14); what stays unverified for them is real time (A8), thread creation / panics inside tokio, and 'callable from inside a runtime'; the bounded scenario blocking_timeout still runs as supporting evidence."),
    "C02": dict(
        text="Frame clauses of every send relation: the only Enq/Rejected effect is on mailbox(self) - one queue for tell, ask, blocking and stop, no spawn per "
             "send, no try_send; stop is an in-band marker in that queue; the monitor requires the handler to run inline before the next poll. Order then follows from FIFO (A1).",
        note=SEND_NOTE),
    "C03": dict(
        text="handle_message: exactly one reply attempt on this request carrying the value returned by this handler call, no on_tell_result on the ask path and exactly "
             "one on the tell path; ask: Ok(v) only with the value received on the request id created in this call, Receive only when the reply sender was dropped; "
             "ask_join awaits the very handle ask returned. The never-hangs half is liveness: only its safety core (receiver closed or dropped on every exit) is decided.",
        note=SEND_NOTE + " Hang-freedom additionally rests on A5 (close-on-drop) and Rust drop semantics."),
    "C04": dict(
        text="run_actor_lifecycle (extracted from src/actor.rs every run) satisfies the safety-monitor postcondition for all iterations and all hook outcomes: on_start once "
             "and first, on_stop at most once and last, only for the five causes, killed iff a signal was consumed; with deadlock-detection every hook runs inside the task-local scope.",
        note=LC_NOTE),
    "C05": dict(
        text="The ActorResult returned by run_actor_lifecycle is tied by postcondition to the monitor history (variant, phase, killed, the very error value, the actor instance "
             "the hooks ran on); the 14 accessor laws and the tuple conversion of ActorResult are postconditions proved for every T.",
        note=LC_NOTE),
    "C06": dict(
        text="kill(): no suspension point, exactly one try_send on the control channel, Ok for Ok/Full/Closed, no mailbox effect (R_kill, also through ActorControl). Monitor: a "
             "handler runs only in a pass whose control poll was pending; on_stop(true) follows a consumed signal directly; spawn wires the control receiver polled first to the ref's control sender.",
        note=LC_NOTE),
    "C07": dict(
        text="The lifecycle gives up its own strong reference before the loop (ghost ownership flag, loop invariant); downgrade/clone/upgrade and all type-erased conversions "
             "preserve the designated actor (HandleView) and weak handles are built from WeakSenders only; upgrade is Some iff both senders upgrade; the monitor has no path to on_stop except the five causes.",
        note=LC_NOTE + " Implicit drops of user-held references and tokio's sender counting (A4) are assumed."),
    "C08": dict(
        text="Monitor rules on Poll(Idle)/RunDone discharged for all iterations: on_run polled only after pending control and mailbox polls of the same pass, never after Ok(false), "
             "Err leads to on_stop(false) and Failed.",
        note=LC_NOTE),
    "C09": dict(
        text="spawn_with_mailbox_capacity returns only for n>0 and creates the mailbox with exactly n and the control channel with exactly 1; spawn uses the configured cell value else 32 "
             "(the constant is checked); set_default_mailbox_capacity rejects 0, succeeds exactly once and stores exactly its argument; all async send paths use the waiting send.",
        note="The bound itself and 'waits only when full' are tokio's (A1). " + SEND_NOTE),
    "C10": dict(
        text="Rule T contracts on tell_with_timeout / ask_with_timeout (and their erased forwarders): inner outcomes pass through unchanged with no extra dead letter, Err(Timeout{self.id, d, op}) "
             "exactly on the Elapsed branch with the caller's d; is_retryable == (self is Timeout). Deadline punctuality (never early / by the deadline) is tokio's timer (A8) and is not decided.",
        note=SEND_NOTE + " The thread-based timeout variants blocking_*_with_timeout_impl are under contract through rule H (DESIGN 8.13): the helper thread's body is read where it is written because the caller only blocks in recv (A14); what stays unverified for them is real time (A8), thread creation / panics inside tokio, and 'callable from inside a runtime'; the bounded scenario blocking_timeout still runs as supporting evidence."),
    "C11": dict(
        text="Identity: spawn allocates the id by one atomic fetch_add(1) (freshness via a monotone floor, stable under interference) with type_name::<T>(); every constructor, clone, "
             "downgrade, upgrade and erased conversion copies id and channels (HandleView equality); is_alive / weak is_alive / upgrade are exactly the channel reads the property names.",
        note="fetch_add atomicity and fewer than 2^64 spawns (A10); channel closed/strong-count semantics (A1, A4). " + SEND_NOTE),
    "C12": dict(
        text="Framework-state half only: every panic site is reached with the wait-for lock released, WaitForGuard::drop contains no reachable panic and tolerates poisoning, the lock is never "
             "re-entered, hooks are called without the lock, and every function under contract has a frame clause over the global cells (id allocator, dead-letter counter, capacity cell, graph).",
        note="Task isolation, crash-point enumeration and 'on_stop not run after a panic' rest on A6/A7 (Rust unwinding, tokio tasks) and are not decided."),
    "C13": dict(
        text="record() logs exactly one dead letter with its arguments unchanged and bumps the counter by exactly one (test-utils); every send relation contains no dead letter on success and "
             "exactly one on failure with (self.id, M, reason matching the error, the operation label); timeout wrappers add one Timeout dead letter only on the Elapsed branch.",
        note="blocking_*_with_timeout_impl: exactly one dead letter per failed delivery, labelled by the inner operation (\"tell\" / \"ask\") when the inner operation failed and by the wrapper "
             "(\"blocking_tell\" / \"blocking_ask\") when the deadline passed - that is what the code does and what the contract pins; the environment-fault path (tokio cannot build the private runtime) "
             "returns Err(Send) without a dead letter and is carved out explicitly (no failing input can be produced for it)." + " The thread-based timeout variants blocking_*_with_timeout_impl are under contract through rule H (DESIGN 8.13): the helper thread's body is read where it is written because the caller only blocks in recv (A14); what stays unverified for them is real time (A8), thread creation / panics inside tokio, and 'callable from inside a runtime'; the bounded scenario blocking_timeout still runs as supporting evidence." + " " + SEND_NOTE),
    "C14": dict(
        text="has_path is proved sound and complete against graph reachability (completeness by a machine-checked pigeonhole lemma, unbounded); ask returns normally only if caller != callee and no chain "
             "callee->caller existed in the graph seen under the single lock acquisition in which the edge is then inserted; all four hooks run inside the task-local scope; erased and timeout asks delegate to ask.",
        note="'No participant waits forever' is liveness and is not decided; format_cycle_path (message text) is not under contract."),
    "C15": dict(
        text="Residue: on every exit of ask (and under cancellation by timeout) the guard removes exactly the caller's edge, WaitForGuard::drop removes exactly its key; untracked callers never touch the graph. "
             "Soundness obligation (panic only for a chain of unanswered asks) is NOT dischargeable on this tree: genuine defect, listed in known_findings.txt; every other C15 obligation is discharged.",
        note="One known finding (stale wait-for edge, DESIGN.md section 5)."),
    "C16": dict(
        text="Every method of the six erased traits carries the same named relation as the inherent operation over target(); each impl (and each lifted clone_boxed/downgrade/upgrade/From/Clone) is verified against it.",
        note="dyn dispatch and Box<dyn _> coercion are rustc's; the dispatchers for lifted methods are trusted glue. " + SEND_NOTE),
    "C17": dict(
        text="No-timeout blocking variants satisfy the async relations with blocking_send/blocking_recv and the blocking_* labels; dispatch sends Some(d) to the timeout implementation with d and None to the "
             "no-timeout one; deprecated aliases equal blocking_*(msg, None) whatever timeout they get. The timeout variants (helper thread + private runtime, extracted by rule H) satisfy "
             "R_tell_timeout / R_ask_timeout for an untracked caller with the caller's d: same delivery, reply-integrity, error and dead-letter rules as tell / ask under a deadline.",
        note="Rule H reads the helper thread's closure where it is written (sound because the caller does nothing but block in recv until the helper has sent: A14). Unverified for the timeout variants: "
             "returning BY the deadline in real time (A8), std::thread::spawn failing or tokio panicking inside the helper, and 'callable from inside a runtime without panicking' (tokio's nested block_on rule; "
             "the helper thread is what rule H recognises). The bounded real-time scenarios blocking_timeout / blocking_api still run on every C17 check as supporting evidence, never counted as proved.",
        technique="contract-based deductive verification (Verus) of dispatch, no-timeout variants, deprecated aliases and the two thread-based timeout implementations (rule H); bounded real-time scenarios on the real crate as supporting evidence for wall-clock behaviour"),
    "C18": dict(
        text="All contracts of the feature-independent properties are re-discharged on the text extracted under each feature subset (quick: 6 subsets, thorough: all 16): the same relations and the same "
             "monitor postcondition hold, i.e. feature-gated code only adds effects the relations do not constrain. An obligation counts against C18 when it is discharged under one "
             "feature subset and fails under another (a failure under every subset in which the obligation exists is the business of the property it states).",
        note="Shows contract preservation, not full trace equality; spans/log macros are dropped by R1/R3 (A9); cfg resolution by the extractor is assumed to mirror rustc's."),
    "C20": dict(
        text="Lifecycle: exactly one guard opened before and one record after each handled envelope, none otherwise (metrics monitor, all iterations); record_message adds exactly 1, saturating total, raises max "
             "and preserves total <= count*max, hence avg <= max; snapshot/accessors read the same cells; clone/downgrade/upgrade share the collector.",
        note="Single-writer cells (only the actor's loop records), fewer than 2^64 messages, clock values opaque (A11)."),
}

NOT_CLAIMED = {
    "C19": "not applicable: proc-macro token generation (syn/quote) is outside every installed deductive verifier; the runtime half (on_tell_result exactly once after tell, never after ask) is an obligation of handle_message reported under C03",
}
