"""Contracts on the functions extracted from /repo/src, keyed `file::[owner::]fn`.

Each clause is (label, property ids, expression).  Labels are what a failing obligation is reported
under; the property ids say which properties the clause serves.
"""


def C(label, props, expr):
    return (label, props.split(), expr)


# names of statics (rule R11) and of effectful callees (rule R7)
STATICS = ["ACTOR_IDS", "DEAD_LETTER_COUNT", "CONFIGURED_DEFAULT_MAILBOX_CAPACITY", "WAIT_FOR"]

EFFECTFUL = {
    # shim: channels, hooks, globals
    "send", "try_send", "blocking_send", "poll_recv", "recv", "try_recv", "close", "is_closed",
    "upgrade", "strong_count", "channel", "blocking_recv", "build", "vx_thread_enter", "vx_thread_exit", "yield_now", "sleep",
    "on_start", "poll_on_run", "on_run", "on_stop", "handle", "on_tell_result",
    "drop", "lock", "fetch_add", "get", "get_or_init", "set", "vx_drop_opt_guard", "drop__WaitForGuard",
    "vx_emit_dead_letter",
    # extracted, non-pure
    "handle_message", "vx_dyn__handle_message", "handle_message__PayloadHandler", "run_actor_lifecycle", "tell", "tell_with_timeout", "ask", "ask_with_timeout",
    "kill", "stop", "blocking_tell", "blocking_ask", "blocking_tell_no_timeout", "blocking_ask_no_timeout",
    "blocking_tell_with_timeout_impl", "blocking_ask_with_timeout_impl", "tell_blocking", "ask_blocking",
    "ask_join", "is_alive", "record", "spawn", "spawn_with_mailbox_capacity",
    "set_default_mailbox_capacity", "vx_tokio_spawn__run_actor_lifecycle",
    "record_message", "update_last_activity", "get_last_activity", "load", "store", "fetch_max", "vx_rmw_load", "vx_rmw_commit",
    "MessageProcessingGuard::new", "AtomicU64::new", "MetricsCollector::new", "drop__MessageProcessingGuard", "snapshot", "message_count", "avg_processing_time",
    "max_processing_time", "metrics",
}


def ACTOR_REF_FNS(features):
    names = ["new", "identity", "downgrade", "is_alive", "tell", "tell_with_timeout", "kill", "stop",
             "blocking_tell", "blocking_tell_no_timeout", "blocking_tell_with_timeout_impl", "tell_blocking",
             "ask", "ask_with_timeout", "blocking_ask", "blocking_ask_no_timeout", "blocking_ask_with_timeout_impl", "ask_blocking", "ask_join"]
    if "metrics" in features:
        names += ["metrics_collector", "metrics", "message_count", "avg_processing_time", "max_processing_time"]
    return names


RRT = "#[verifier::reject_recursive_types(T)]"

SPECS = {}

# ------------------------------------------------------------------ types
SPECS["lib.rs::MailboxMessage"] = dict(attrs=[RRT])
SPECS["actor_ref.rs::ActorRef"] = dict(attrs=[RRT])
SPECS["actor_ref.rs::ActorWeak"] = dict(attrs=[RRT])
SPECS["actor_result.rs::ActorResult"] = dict(attrs=[RRT])
SPECS["lib.rs::Identity::new"] = dict(pure=True, ensures=[
    C("identity.new.fields", "C11", "r.id == id && r.type_name == type_name")])
SPECS["lib.rs::Identity::name"] = dict(pure=True, ensures=[
    C("identity.name", "C11", "r == self.type_name")])
SPECS["error.rs::Error::is_retryable"] = dict(pure=True, ensures=[
    C("error.is_retryable.iff_timeout", "C10", "r == (self is Timeout)")])

# ------------------------------------------------------------------ payload dispatch
HM_PRE = [
    C("handle_message.pre.scope", "C14", "hook_scope_ok(*old(w), old(actor).mon().id)"),
    C("handle_message.pre.unlocked", "C12", "!old(w).lock_held()"),
]
HM_POST = [
    C("handle_message.handled_exactly_once", "C01 C02 C06",
      "final(actor).mon() == step(old(actor).mon(), Ev::Handled((*self).pid()))"),
    C("handle_message.metrics_handled_once", "C20", "final(w).mmon() == mstep(old(w).mmon(), MEv::Handled)"),
    C("handle_message.frame", "C12 C14",
      "final(w).current_actor() == old(w).current_actor() && final(w).lock_held() == old(w).lock_held() && final(w).own_strong() == old(w).own_strong()"),
    C("handle_message.ask_reply_is_this_handlers_value", "C03 C19",
      "reply_channel matches Some(ch) ==> reply_log_ok(old(w).log(), final(w).log(), (*self).pid(), ch.req())"),
    C("handle_message.tell_result_exactly_once", "C03 C19",
      "reply_channel is None ==> tell_log_ok(old(w).log(), final(w).log(), (*self).pid())"),
]
def _this(clauses):
    import re
    return [(l, p, re.sub(r"\bself\b", "this", e)) for (l, p, e) in clauses]
# the lifted impl method is verified against the contract; the dyn dispatcher in glue.rs assumes it
def _ufcs(clauses):
    return [(l, p, e.replace("(*this).pid()", "<T as PayloadHandler<A>>::pid(&*this)")) for (l, p, e) in clauses]
SPECS["lib.rs::impl PayloadHandler::handle_message"] = dict(requires=_this(HM_PRE), ensures=_ufcs(_this(HM_POST)))
GLUE_CLAUSES = {"HM_PRE": _this(HM_PRE), "HM_POST": _this(HM_POST)}

# ------------------------------------------------------------------ lifecycle
LC_INV_CH = [
    C("lifecycle.inv.channels", "C06 C08", "actor.mon().ctl == terminate_receiver.chan() && actor.mon().mbx == receiver.chan() && actor.mon().ctl != actor.mon().mbx"),
    C("lifecycle.inv.own_id", "C14", "actor.mon().id == actor_id"),
    C("lifecycle.inv.strong_ref_released", "C07", "w.own_strong() is None"),
    C("lifecycle.inv.no_scope_outside_hooks", "C14 C15", "w.current_actor() is None"),
    C("lifecycle.inv.unlocked", "C12", "!w.lock_held()"),
    C("lifecycle.inv.metrics_guard_closed", "C20", "mmon_idle(*w)"),
]
# The monitor's `bad` flag carries the reason of the first bad step (vocab.rs `why_of` / `blames`): one clause per property says
# "no violation of THIS property has been recorded", so that a change is attributed to the properties it breaks and to no others.
# The structural invariants are of the form `bad || ..` (nothing further is claimed once a violation has been recorded).
MON_PROPS = [1, 2, 4, 5, 6, 7, 8]
def LC_OKS(prefix, expr):
    return [C("%s.no_violation_recorded.C%02d" % (prefix, p), "C%02d" % p, "ok_for(%s, %d)" % (expr, p)) for p in MON_PROPS]
def LC_HEAD(prefix):
    return [
        C(prefix + ".started_not_stopped", "C04", "ph_started_not_stopped(actor.mon())"),
        C(prefix + ".no_pending_control", "C06", "ph_no_pending_control(actor.mon())"),
        C(prefix + ".no_pending_close", "C07 C02 C01", "ph_no_pending_close(actor.mon())"),
        C(prefix + ".no_pending_envelope", "C01 C02", "ph_no_pending_envelope(actor.mon())"),
        C(prefix + ".no_pending_run_err", "C04 C05", "ph_no_pending_run_err(actor.mon())"),
        C(prefix + ".not_mid_idle", "C08", "ph_not_mid_idle(actor.mon())"),
        C(prefix + ".not_killed_yet", "C04 C05 C06", "!$killed"),
        C(prefix + ".idle_flag_tracks_ok_false", "C08", "idle_flag_inv(actor, $idle)"),
    ]
SPECS["actor.rs::run_actor_lifecycle"] = dict(
    attrs=["#[verifier::exec_allows_no_decreases_clause]"],
    select_carrier="actor",
    dyn_calls={"handle_message": "vx_dyn__handle_message"},
    raii={"init:MessageProcessingGuard::new(": "drop__MessageProcessingGuard"},
    explicit_drop_only=["$2"],     # actor_ref: the lifecycle's own strong reference
    # the two loop-carried flags are found by what they are initialised from, not by their names
    binders={"killed": r"let\s+mut\s+(\w+)\s*=\s*false\s*;", "idle": r"let\s+mut\s+(\w+)\s*=\s*true\s*;"},
    requires=[
        C("lifecycle.pre.mailbox_is_refs_mailbox", "C01 C02", "receiver.chan() == actor_ref.mbx_chan()"),
        C("lifecycle.pre.control_is_refs_control", "C06", "terminate_receiver.chan() == actor_ref.ctl_chan()"),
        C("lifecycle.pre.distinct_channels", "C06", "actor_ref.mbx_chan() != actor_ref.ctl_chan()"),
        C("lifecycle.pre.fresh_task", "C12 C14", "!old(w).lock_held() && old(w).current_actor() is None && mmon_idle(*old(w))"),
        C("lifecycle.pre.owns_strong_ref", "C07", "old(w).own_strong() == Some(actor_ref.mbx_chan())"),
    ],
    ensures=[
        C("lifecycle.post.result_reports_how_it_ended", "C05", "lifecycle_post(args, actor_ref, r)"),
    ] + [C("lifecycle.post.no_violation_recorded.C%02d" % p, "C%02d" % p, "result_ok_for(r, %d)" % p) for p in MON_PROPS] + [
        C("lifecycle.post.metrics_guard_closed", "C20", "mmon_idle(*final(w))"),
        C("lifecycle.post.unlocked", "C12", "!final(w).lock_held()"),
        C("lifecycle.post.scope_closed", "C14 C15", "final(w).current_actor() is None"),
    ],
    loops={
        "loop#1": dict(
            invariant_except_break=LC_HEAD("lifecycle.inv"),
            invariant=[C("lifecycle.inv.started", "C04 C05", "T::start_spec(args, actor_ref) is Ok")] + LC_INV_CH + LC_OKS("lifecycle.inv", "actor.mon()"),
            ensures=[
                C("lifecycle.loop_exit.stopped_ok", "C04 C05 C07",
                  "actor.mon().bad || (actor.mon().ph matches Ph::Stopped(k, None, c) && k == $killed && !(c is RunErr))"),
            ],
        ),
        "select#1": dict(
            invariant_except_break=LC_HEAD("lifecycle.select.inv"),
            invariant=[
                C("lifecycle.select.inv.control_branch_unconditional", "C06 C07 C08", "__sel1_g0"),
                C("lifecycle.select.inv.mailbox_branch_unconditional", "C01 C02 C07 C08", "__sel1_g1"),
                C("lifecycle.select.inv.idle_guard_is_flag", "C08", "__sel1_g2 == $idle"),
            ] + LC_INV_CH + LC_OKS("lifecycle.select.inv", "actor.mon()"),
            ensures=[
                C("lifecycle.select.control_branch_fired_matches_monitor", "C06 C07", "sel_post_b0(actor, __sel1_out)"),
                C("lifecycle.select.mailbox_branch_fired_matches_monitor", "C01 C02", "sel_post_b1(actor, __sel1_out)"),
                C("lifecycle.select.taken_message_is_of_this_mailbox", "C01 C07", "sel_post_b1_fits(actor, __sel1_out)"),
                C("lifecycle.select.idle_branch_fired_matches_monitor", "C08 C04", "sel_post_b2(actor, __sel1_out)"),
                C("lifecycle.select.idle_only_if_enabled", "C08", "__sel1_out is B2 ==> $idle"),
                C("lifecycle.select.idle_off_tracked", "C08",
                  "actor.mon().bad || (if __sel1_out matches Out3::B2(Ok(false)) { $idle && actor.mon().idle_off } else { $idle == !actor.mon().idle_off })"),
            ],
        ),
    },
)

# ------------------------------------------------------------------ ActorRef basics
SPECS["actor_ref.rs::ActorRef::new"] = dict(pure=True, ensures=[
    C("actor_ref.new.fields", "C11 C09", "r.id == id && r.sender.chan() == sender.chan() && r.terminate_sender.chan() == terminate_sender.chan() && r.sender.cap() == sender.cap() && r.terminate_sender.cap() == terminate_sender.cap()"),
])
SPECS["actor_ref.rs::ActorRef::identity"] = dict(pure=True, ensures=[
    C("actor_ref.identity.is_id", "C11", "r == self.id")])
SPECS["actor_ref.rs::ActorRef::downgrade"] = dict(pure=True, ensures=[
    C("actor_ref.downgrade.same_actor", "C07 C11", "r.id == this.id && r.sender.chan() == this.sender.chan() && r.terminate_sender.chan() == this.terminate_sender.chan()"),
])
SPECS["actor_ref.rs::Clone for ActorRef::clone"] = dict(pure=True, ensures=[
    C("actor_ref.clone.same_actor", "C07 C11", "r.id == self.id && r.sender.chan() == self.sender.chan() && r.terminate_sender.chan() == self.terminate_sender.chan()"),
])
SPECS["actor_ref.rs::ActorWeak::identity"] = dict(pure=True, ensures=[
    C("actor_weak.identity.is_id", "C11", "r == self.id")])
SPECS["actor_ref.rs::Clone for ActorWeak::clone"] = dict(pure=True, ensures=[
    C("actor_weak.clone.same_actor", "C07 C11", "r.id == self.id && r.sender.chan() == self.sender.chan() && r.terminate_sender.chan() == self.terminate_sender.chan()"),
])


# ------------------------------------------------------------------ dead letters
SPECS["dead_letter.rs::record"] = dict(record_emit=True, requires=[], ensures=[
    C("record.exactly_one_dead_letter_with_given_fields", "C13",
      "final(w).log() =~= dl_log::<M>(old(w).log(), identity, reason, operation@)"),
    C("record.frame", "C12 C13", "same_ambient_but_dl(*old(w), *final(w))"),
    C("record.counter_plus_one_iff_enabled", "C13", "final(w).dl_count() == old(w).dl_count() + dl_counter_step()"),
])

# ------------------------------------------------------------------ send side
AMB = "same_ambient_but_dl(*old(w), *final(w))"
AMB_BUT_GRAPH = "same_ambient_but_dl_graph(*old(w), *final(w))"
SPECS["actor_ref.rs::ActorRef::tell"] = dict(ret="result", ensures=[
    C("tell.relation", "C01 C02 C13", "r_tell::<M>(self.hv(), msg_id(msg), old(w).log(), final(w).log(), result, \"tell\"@)"),
    C("tell.waits_for_room_ok_iff_accepted", "C09", "r_waiting_send(self.hv(), old(w).log(), final(w).log(), result is Ok)"),
    C("tell.dead_letters", "C13", "r_dl::<M>(self.id, old(w).log(), final(w).log(), dl_reason_tell(result), \"tell\"@)"),
    C("tell.frame", "C12", AMB),
])
SPECS["actor_ref.rs::ActorRef::tell_with_timeout"] = dict(ret="result", ensures=[
    C("tell_with_timeout.relation", "C01 C10 C13", "r_tell_timeout::<M>(self.hv(), msg_id(msg), timeout, old(w).log(), final(w).log(), result, \"tell\"@)"),
    C("tell_with_timeout.dead_letters", "C13", "r_dl::<M>(self.id, old(w).log(), final(w).log(), dl_reason_tell(result), \"tell\"@)"),
    C("tell_with_timeout.frame", "C12", AMB),
])
SPECS["actor_ref.rs::ActorRef::kill"] = dict(ret="result", ensures=[
    C("kill.relation", "C06", "r_kill(self.hv(), old(w).log(), final(w).log(), result)"),
    C("kill.frame", "C12", "same_ambient(*old(w), *final(w))"),
])
SPECS["actor_ref.rs::ActorRef::stop"] = dict(ret="result", ensures=[
    C("stop.relation", "C01 C02 C07 C09", "r_stop(self.hv(), old(w).log(), final(w).log(), result)"),
    C("stop.frame", "C12", "same_ambient(*old(w), *final(w))"),
])
SPECS["actor_ref.rs::ActorRef::is_alive"] = dict(ret="result", ensures=[
    C("is_alive.relation", "C11", "r_is_alive(self.hv(), old(w).log(), final(w).log(), result)"),
])
SPECS["actor_ref.rs::ActorRef::blocking_tell_no_timeout"] = dict(ret="result", ensures=[
    C("blocking_tell_no_timeout.relation", "C17 C02 C13", "r_tell::<M>(self.hv(), msg_id(msg), old(w).log(), final(w).log(), result, \"blocking_tell\"@)"),
    C("blocking_tell_no_timeout.dead_letters", "C13", "r_dl::<M>(self.id, old(w).log(), final(w).log(), dl_reason_tell(result), \"blocking_tell\"@)"),
    C("blocking_tell_no_timeout.frame", "C12", AMB),
])
SPECS["actor_ref.rs::ActorRef::blocking_tell_with_timeout_impl"] = dict(ret="result", ensures=[
    C("blocking_tell_timeout.relation", "C17 C10 C01 C02 C13",
      "r_blocking_tell_timeout::<M>(self.hv(), msg_id(msg), timeout, old(w).log(), final(w).log(), result)"),
    C("blocking_tell_timeout.dead_letters", "C13",
      "rt_build_failed(old(w).log(), final(w).log()) || r_dl2::<M>(self.id, old(w).log(), final(w).log(), dl_reason_tell(result), \"tell\"@, \"blocking_tell\"@)"),
    C("blocking_tell_timeout.frame", "C12", AMB),
])
SPECS["actor_ref.rs::ActorRef::blocking_tell"] = dict(ret="result", ensures=[
    C("blocking_tell.none_is_no_timeout_variant", "C17", "timeout is None ==> r_tell::<M>(self.hv(), msg_id(msg), old(w).log(), final(w).log(), result, \"blocking_tell\"@)"),
    C("blocking_tell.some_goes_to_timeout_impl_with_d", "C17 C10",
      "timeout matches Some(d) ==> r_blocking_tell_timeout::<M>(self.hv(), msg_id(msg), d, old(w).log(), final(w).log(), result)"),
])
SPECS["actor_ref.rs::ActorRef::tell_blocking"] = dict(ret="result", ensures=[
    C("tell_blocking.alias_ignores_timeout", "C17", "r_tell::<M>(self.hv(), msg_id(msg), old(w).log(), final(w).log(), result, \"blocking_tell\"@)"),
])


# the wait-for lock is never held across an ask and never poisoned (no panic site is reachable while it is held: C12)
ASK_PRE = [C("ask.pre.lock_free_and_unpoisoned", "C12", "!old(w).lock_held() && !old(w).poisoned()")]


def _ask_t(features):
    # the heaviest proof of the lot (rule-T cut over the tracked-ask log): give the solver room, so that harmless edits of the
    # surrounding text cannot push it over the default resource limit (an exceeded limit is reported as undecided, never as an alarm)
    return dict(ret="result", requires=ASK_PRE, attrs=["#[verifier::rlimit(150)]"], ensures=[
        C("ask_with_timeout.relation", "C01 C03 C10 C13 C15",
          "r_ask_timeout::<M, T::Reply>(self.hv(), msg_id(msg), timeout, *old(w), *final(w), result, \"ask\"@)"),
        C("ask_with_timeout.dead_letters", "C13", "r_dl::<M>(self.id, old(w).log(), final(w).log(), dl_reason_ask::<T::Reply>(result), \"ask\"@)"),
        C("ask_with_timeout.frame", "C12", AMB_BUT_GRAPH if "deadlock-detection" in features else AMB),
    ])


def _ask(features):
    rel = "r_ask::<M, T::Reply>(self.hv(), msg_id(msg), *old(w), *final(w), result, \"ask\"@)"
    d = dict(ret="result", attrs=["#[verifier::rlimit(150)]"], ensures=[
        C("ask.relation", "C01 C02 C03 C13 C14 C15", rel),
        C("ask.dead_letters", "C13", "r_dl::<M>(self.id, old(w).log(), final(w).log(), dl_reason_ask::<T::Reply>(result), \"ask\"@)"),
        C("ask.frame", "C12", AMB_BUT_GRAPH if "deadlock-detection" in features else AMB),
    ])
    d["requires"] = ASK_PRE
    d["panics"] = ("except", "format_cycle_path")   # only the deliberate deadlock panic
    if "deadlock-detection" in features:
        # guards are recognised by what they are initialised from, not by their names
        d["raii"] = {"init:.lock(": "drop", "init:WaitForGuard(": "vx_drop_opt_guard"}
        d["proofs"] = [("drop(graph, w);",
                        "proof { assert(caller.id == callee.id || chain_unanswered(graph@, callee.id, caller.id)); /*L:ask.deadlock_panic.requires_unanswered_chain*/ }\n"
                        "proof { assert(graph@ == w.graph()); /*L:ask.deadlock_panic.leaves_graph_as_found*/ }\n"
                        "proof { assert(old(w).current_actor() == Some(caller)); /*L:ask.deadlock_panic.only_for_tracked_callers*/ }",
                        "before")]
    return d


SPECS["actor_ref.rs::ActorRef::ask"] = _ask
SPECS["actor_ref.rs::ActorRef::ask_with_timeout"] = _ask_t
SPECS["actor_ref.rs::ActorRef::blocking_ask_no_timeout"] = dict(ret="result", ensures=[
    C("blocking_ask_no_timeout.relation", "C17 C02 C03 C13",
      "r_ask_core::<M, T::Reply>(self.hv(), msg_id(msg), old(w).log(), final(w).log(), result, \"blocking_ask\"@)"),
    C("blocking_ask_no_timeout.dead_letters", "C13", "r_dl::<M>(self.id, old(w).log(), final(w).log(), dl_reason_ask::<T::Reply>(result), \"blocking_ask\"@)"),
    C("blocking_ask_no_timeout.frame", "C12", AMB),
])
BASK_PRE = [C("blocking_ask.pre.unpoisoned", "C12", "!old(w).poisoned()")]
SPECS["actor_ref.rs::ActorRef::blocking_ask_with_timeout_impl"] = dict(ret="result", requires=BASK_PRE, ensures=[
    C("blocking_ask_timeout.relation", "C17 C10 C01 C02 C03 C13 C15",
      "r_blocking_ask_timeout::<M, T::Reply>(self.hv(), msg_id(msg), timeout, *old(w), *final(w), result)"),
    C("blocking_ask_timeout.dead_letters", "C13",
      "rt_build_failed(old(w).log(), final(w).log()) || r_dl2::<M>(self.id, old(w).log(), final(w).log(), dl_reason_ask::<T::Reply>(result), \"ask\"@, \"blocking_ask\"@)"),
    C("blocking_ask_timeout.frame", "C12", AMB),
])
SPECS["actor_ref.rs::ActorRef::blocking_ask"] = dict(ret="result", requires=BASK_PRE, ensures=[
    C("blocking_ask.none_is_no_timeout_variant", "C17",
      "timeout is None ==> r_ask_core::<M, T::Reply>(self.hv(), msg_id(msg), old(w).log(), final(w).log(), result, \"blocking_ask\"@)"),
    C("blocking_ask.some_goes_to_timeout_impl_with_d", "C17 C10",
      "timeout matches Some(d) ==> r_blocking_ask_timeout::<M, T::Reply>(self.hv(), msg_id(msg), d, *old(w), *final(w), result)"),
])
SPECS["actor_ref.rs::ActorRef::ask_blocking"] = dict(ret="result", requires=BASK_PRE, ensures=[
    C("ask_blocking.alias_ignores_timeout", "C17",
      "r_ask_core::<M, T::Reply>(self.hv(), msg_id(msg), old(w).log(), final(w).log(), result, \"blocking_ask\"@)"),
])
SPECS["actor_ref.rs::ActorRef::ask_join"] = dict(ret="result", requires=ASK_PRE, ensures=[
    C("ask_join.awaits_the_handle_returned_by_ask", "C03", "r_ask_join::<M, R>(self.hv(), msg_id(msg), *old(w), *final(w), result)"),
])


# ------------------------------------------------------------------ weak handles
SPECS["actor_ref.rs::ActorWeak::upgrade"] = dict(ret="result", ensures=[
    C("actor_weak.upgrade.some_iff_both_senders_upgrade", "C07 C11", "r_upgrade(self.hv(), old(w).log(), final(w).log(), result is Some)"),
    C("actor_weak.upgrade.same_actor", "C07 C11",
      "result matches Some(a) ==> a.hv() == self.hv()"),
    C("actor_weak.upgrade.frame", "C12", "same_ambient(*old(w), *final(w))"),
])
SPECS["actor_ref.rs::ActorWeak::is_alive"] = dict(ret="result", ensures=[
    C("actor_weak.is_alive.iff_both_strong_counts_positive", "C11", "r_weak_alive(self.hv(), old(w).log(), final(w).log(), result)"),
])

# ------------------------------------------------------------------ spawn / capacity
SPECS["lib.rs::set_default_mailbox_capacity"] = dict(ret="result", ensures=[
    C("set_default_capacity.zero_rejected_cell_untouched", "C09",
      "size == 0 ==> (result matches Err(Error::MailboxCapacity { .. })) && final(w).cap_cell() == old(w).cap_cell() && final(w).log() =~= old(w).log()"),
    C("set_default_capacity.ok_iff_first_nonzero", "C09",
      "size > 0 ==> (result is Ok <==> old(w).cap_cell() is None)"),
    C("set_default_capacity.ok_stores_exactly_size", "C09", "result is Ok ==> final(w).cap_cell() == Some(size)"),
    C("set_default_capacity.second_call_fails_and_keeps_value", "C09",
      "result is Err ==> (result matches Err(Error::MailboxCapacity { .. })) && final(w).cap_cell() == old(w).cap_cell()"),
    C("set_default_capacity.frame", "C12",
      "final(w).id_floor() == old(w).id_floor() && final(w).dl_count() == old(w).dl_count() && final(w).graph() == old(w).graph() && final(w).lock_held() == old(w).lock_held()"),
])
SPAWN_POST = [
    C("spawn.capacity_positive_or_panic", "C09", "cap_used > 0"),
    C("spawn.effects_exactly", "C09 C11 C01 C02",
      "final(w).log() =~= spawn_tail(LOG0, r.0.hv(), cap_used, val_id(args))"),
    C("spawn.ref_points_at_spawned_task_channels", "C06 C11", "r.0.mbx_chan() != r.0.ctl_chan()"),
    C("spawn.mailbox_bound_is_exactly_requested_capacity", "C09", "r.0.sender.cap() == cap_used as nat"),
    C("spawn.control_channel_bound_is_one", "C06 C09", "r.0.terminate_sender.cap() == 1"),
    C("spawn.identity_fresh", "C11", "r.0.id.id as int >= old(w).id_floor() && final(w).id_floor() > r.0.id.id as int"),
    C("spawn.identity_type_name", "C11", "r.0.id.type_name@ == type_name_spec::<T>()"),
    C("spawn.frame", "C12", "final(w).dl_count() == old(w).dl_count() && final(w).graph() == old(w).graph() && final(w).lock_held() == old(w).lock_held() && final(w).cap_cell() == old(w).cap_cell() && final(w).current_actor() == old(w).current_actor()"),
]


def _sub(clauses, **kw):
    out = []
    for (l, p, e) in clauses:
        for k, v in kw.items():
            e = e.replace(k, v)
        out.append((l, p, e))
    return out


SPECS["lib.rs::spawn_with_mailbox_capacity"] = dict(
    panics="allow",   # the documented rejection of capacity 0
    requires=[C("spawn.pre.unlocked", "C12", "!old(w).lock_held()")],
    ensures=_sub(SPAWN_POST, cap_used="mailbox_capacity", LOG0="old(w).log()"))
SPECS["lib.rs::spawn"] = dict(
    requires=[C("spawn.pre.unlocked", "C12", "!old(w).lock_held()")],
    ensures=[(l.replace("spawn.", "spawn_default."), p, e) for (l, p, e) in
             _sub(SPAWN_POST, cap_used="default_capacity(*old(w))", LOG0="old(w).log().push(Eff::CellGet(cell_DEFAULT_CAPACITY(), old(w).cap_cell()))")]
    + [
       C("spawn_default.default_is_32", "C09", "DEFAULT_MAILBOX_CAPACITY == 32")])


# ------------------------------------------------------------------ type-erased handles (C16): the SAME named relations
def _erased():
    T = "self.target()"
    tell = [C("erased.tell.same_relation_as_inherent", "C16", "r_tell::<M>(%s, msg_id(msg), old(w).log(), final(w).log(), r, \"tell\"@)" % T)]
    tellt = [C("erased.tell_with_timeout.same_relation_as_inherent", "C16", "r_tell_timeout::<M>(%s, msg_id(msg), timeout, old(w).log(), final(w).log(), r, \"tell\"@)" % T)]
    btell = [
        C("erased.blocking_tell.none_same_relation", "C16", "timeout is None ==> r_tell::<M>(%s, msg_id(msg), old(w).log(), final(w).log(), r, \"blocking_tell\"@)" % T),
        C("erased.blocking_tell.some_keeps_its_timeout", "C16",
          "timeout matches Some(d) ==> r_blocking_tell_timeout::<M>(%s, msg_id(msg), d, old(w).log(), final(w).log(), r)" % T)]
    ask = [C("erased.ask.same_relation_as_inherent", "C16", "r_ask::<M, R>(%s, msg_id(msg), *old(w), *final(w), r, \"ask\"@)" % T)]
    askt = [C("erased.ask_with_timeout.same_relation_as_inherent", "C16", "r_ask_timeout::<M, R>(%s, msg_id(msg), timeout, *old(w), *final(w), r, \"ask\"@)" % T)]
    bask = [
        C("erased.blocking_ask.none_same_relation", "C16", "timeout is None ==> r_ask_core::<M, R>(%s, msg_id(msg), old(w).log(), final(w).log(), r, \"blocking_ask\"@)" % T),
        C("erased.blocking_ask.some_keeps_its_timeout", "C16",
          "timeout matches Some(d) ==> r_blocking_ask_timeout::<M, R>(%s, msg_id(msg), d, *old(w), *final(w), r)" % T)]
    same = lambda lab: [C(lab, "C16 C11", "r.target() == self.target()")]
    S = {}
    S["handler.rs::TellHandler::tell"] = dict(ensures=tell)
    S["handler.rs::TellHandler::tell_with_timeout"] = dict(ensures=tellt)
    S["handler.rs::TellHandler::blocking_tell"] = dict(ensures=btell)
    S["handler.rs::TellHandler::as_control"] = dict(pure=True, ensures=same("erased.tell_handler.as_control.same_actor"))
    S["handler.rs::AskHandler::ask"] = dict(requires=ASK_PRE, ensures=ask)
    S["handler.rs::AskHandler::ask_with_timeout"] = dict(requires=ASK_PRE, ensures=askt)
    S["handler.rs::AskHandler::blocking_ask"] = dict(requires=BASK_PRE, ensures=bask)
    S["handler.rs::AskHandler::as_control"] = dict(pure=True, ensures=same("erased.ask_handler.as_control.same_actor"))
    S["handler.rs::WeakTellHandler::as_weak_control"] = dict(pure=True, ensures=same("erased.weak_tell_handler.as_weak_control.same_actor"))
    S["handler.rs::WeakAskHandler::as_weak_control"] = dict(pure=True, ensures=same("erased.weak_ask_handler.as_weak_control.same_actor"))
    S["actor_control.rs::ActorControl::identity"] = dict(pure=True, ensures=[C("erased.control.identity.same", "C16 C11", "r == self.target().id")])
    S["actor_control.rs::ActorControl::is_alive"] = dict(ensures=[C("erased.control.is_alive.same_relation", "C16 C11", "r_is_alive(%s, old(w).log(), final(w).log(), r)" % T)])
    S["actor_control.rs::ActorControl::stop"] = dict(ensures=[C("erased.control.stop.same_relation", "C16 C07", "r_stop(%s, old(w).log(), final(w).log(), r)" % T)])
    S["actor_control.rs::ActorControl::kill"] = dict(ensures=[C("erased.control.kill.same_relation", "C16", "r_kill(%s, old(w).log(), final(w).log(), r)" % T)])
    S["actor_control.rs::WeakActorControl::identity"] = dict(pure=True, ensures=[C("erased.weak_control.identity.same", "C16 C11", "r == self.target().id")])
    S["actor_control.rs::WeakActorControl::is_alive"] = dict(ensures=[C("erased.weak_control.is_alive.same_relation", "C16 C11", "r_weak_alive(%s, old(w).log(), final(w).log(), r)" % T)])
    # impl methods that stay in the trait: contract inherited from the declaration (pure flags must agree)
    for tr, who in (("TellHandler", "ActorRef"), ("AskHandler", "ActorRef")):
        S["handler.rs::%s for %s::as_control" % (tr, who)] = dict(pure=True)
    for tr, who in (("WeakTellHandler", "ActorWeak"), ("WeakAskHandler", "ActorWeak")):
        S["handler.rs::%s for %s::as_weak_control" % (tr, who)] = dict(pure=True)
    S["actor_control.rs::ActorControl for ActorRef::identity"] = dict(pure=True)
    S["actor_control.rs::WeakActorControl for ActorWeak::identity"] = dict(pure=True)
    # lifted (R10) members: clone_boxed / downgrade / upgrade and the Clone / From impls
    def lifted(file, owner, who, tag):
        S["%s::%s for %s::clone_boxed" % (file, owner, who)] = dict(pure=True, ensures=[
            C("erased.%s.clone_boxed.same_actor" % tag, "C16 C11 C07", "r.target() == this.hv()")])
        if who == "ActorRef":
            S["%s::%s for %s::downgrade" % (file, owner, who)] = dict(pure=True, ensures=[
                C("erased.%s.downgrade.same_actor" % tag, "C16 C11 C07", "r.target() == this.hv()")])
        else:
            S["%s::%s for %s::upgrade" % (file, owner, who)] = dict(ensures=[
                C("erased.%s.upgrade.same_relation" % tag, "C16 C07 C11", "r_upgrade(this.hv(), old(w).log(), final(w).log(), r is Some)"),
                C("erased.%s.upgrade.same_actor" % tag, "C16 C07 C11", "r matches Some(b) ==> b.target() == this.hv()")])
    lifted("handler.rs", "TellHandler", "ActorRef", "tell_handler")
    lifted("handler.rs", "AskHandler", "ActorRef", "ask_handler")
    lifted("handler.rs", "WeakTellHandler", "ActorWeak", "weak_tell_handler")
    lifted("handler.rs", "WeakAskHandler", "ActorWeak", "weak_ask_handler")
    lifted("actor_control.rs", "ActorControl", "ActorRef", "control")
    lifted("actor_control.rs", "WeakActorControl", "ActorWeak", "weak_control")
    for file, tr in (("handler.rs", "TellHandler"), ("handler.rs", "AskHandler"), ("handler.rs", "WeakTellHandler"),
                     ("handler.rs", "WeakAskHandler"), ("actor_control.rs", "ActorControl"), ("actor_control.rs", "WeakActorControl")):
        S["%s::Clone for Box<dyn %s>::clone" % (file, tr)] = dict(pure=True, dyn_calls={"clone_boxed": "vx_dyn__clone_boxed__%s" % tr}, ensures=[
            C("erased.box_%s.clone.same_actor" % tr, "C16 C11", "r.target() == this.target()")])
        src = "ActorWeak" if tr.startswith("Weak") else "ActorRef"
        S["%s::From<%s> for Box<dyn %s>::from" % (file, src, tr)] = dict(pure=True, ensures=[
            C("erased.from_%s_for_%s.same_actor" % (src, tr), "C16 C11 C07", "r.target() == $1.hv()")])
        S["%s::From<&%s> for Box<dyn %s>::from" % (file, src, tr)] = dict(pure=True, ensures=[
            C("erased.from_ref_%s_for_%s.same_actor" % (src, tr), "C16 C11 C07", "r.target() == $1.hv()")])
    return S


SPECS.update(_erased())


# ------------------------------------------------------------------ ActorResult accessor laws (for every T)
def _ar():
    K = "actor_result.rs::ActorResult::"
    S = {}
    def law(name, expr):
        S[K + name] = dict(pure=True, ensures=[C("actor_result.%s.agrees_with_fields" % name, "C05", expr)])
    law("is_completed", "r == (self is Completed)")
    law("was_killed", "r == (match *self { ActorResult::Completed { killed, .. } => killed, ActorResult::Failed { killed, .. } => killed })")
    law("stopped_normally", "r == (*self matches ActorResult::Completed { killed: false, .. })")
    law("is_startup_failed", "r == (*self matches ActorResult::Failed { phase: FailurePhase::OnStart, .. })")
    law("is_runtime_failed", "r == ((*self matches ActorResult::Failed { phase: FailurePhase::OnRun, .. }) || (*self matches ActorResult::Failed { phase: FailurePhase::OnRunThenOnStop, .. }))")
    law("is_cleanup_failed", "r == (*self matches ActorResult::Failed { phase: FailurePhase::OnRunThenOnStop, .. })")
    law("is_stop_failed", "r == (*self matches ActorResult::Failed { phase: FailurePhase::OnStop, .. })")
    law("is_failed", "r == (self is Failed)")
    law("actor", "match *self { ActorResult::Completed { actor, .. } => r == Some(&actor), ActorResult::Failed { actor: Some(a), .. } => r == Some(&a), ActorResult::Failed { actor: None, .. } => r is None }")
    law("into_actor", "r == (match self { ActorResult::Completed { actor, .. } => Some(actor), ActorResult::Failed { actor, .. } => actor })")
    law("error", "match *self { ActorResult::Completed { .. } => r is None, ActorResult::Failed { error, .. } => r == Some(&error) }")
    law("into_error", "r == (match self { ActorResult::Completed { .. } => None, ActorResult::Failed { error, .. } => Some(error) })")
    law("has_actor", "r == (match *self { ActorResult::Completed { .. } => true, ActorResult::Failed { actor, .. } => actor is Some })")
    law("to_result", "r == (match self { ActorResult::Completed { actor, .. } => Ok::<T, T::Error>(actor), ActorResult::Failed { error, .. } => Err::<T, T::Error>(error) })")
    S["actor_result.rs::From<ActorResult> for tuple::from"] = dict(pure=True, ensures=[
        C("actor_result.from_tuple.agrees_with_fields", "C05",
          "r == (match $1 { ActorResult::Completed { actor, .. } => (Some(actor), None::<T::Error>), ActorResult::Failed { actor, error, .. } => (actor, Some(error)) })")])
    return S


SPECS.update(_ar())


# ------------------------------------------------------------------ deadlock detection
SPECS["lib.rs::has_path"] = dict(pure=True,
    # the two locals the invariants must mention are found by their initialisers, whatever they are called
    binders={"current": r"let\s+mut\s+(\w+)\s*=\s*from\s*;", "max_steps": r"let\s+(\w+)\s*=\s*graph\s*\.\s*len\s*\(\s*\)"},
    ensures=[
        C("has_path.sound_only_true_if_chain_exists", "C15", "r ==> reach(graph@, from, to)"),
        C("has_path.complete_finds_every_chain", "C14", "reach(graph@, from, to) ==> r"),
    ],
    loops={"loop#1": dict(
        invariant=[
            C("has_path.inv.step_bound_is_graph_size", "C14", "$max_steps == graph@.dom().len()"),
            C("has_path.inv.current_is_ith_successor", "C14 C15", "walk(graph@, from, _vx_i as nat) == Some($current)"),
            C("has_path.inv.target_not_met_so_far", "C14", "forall|j: nat| 1 <= j <= _vx_i ==> walk(graph@, from, j) != Some(to)"),
        ],
        after="proof { if reach(graph@, from, to) { lemma_reach_bounded(graph@, from, to); } }",
    )},
    proofs=[
        ("return true;", "proof { assert(walk(graph@, from, (_vx_i + 1) as nat) == Some(to)); }", "before"),
        ([r"None\s*=>\s*return\s+false", r"else\s*\{\s*return\s+false\s*;\s*\}"],
         "None_OR_ELSE", "none_branch"),
    ])
SPECS["lib.rs::Drop for WaitForGuard::drop"] = dict(
    raii={"init:.lock(": "drop"}, no_panic=True, by_value=True,
    ensures=[
        C("wait_for_guard.drop.removes_exactly_its_edge_and_unlocks", "C15 C12", "guard_removed(this.0, *old(w), *final(w))"),
        C("wait_for_guard.drop.frame", "C12",
          "final(w).current_actor() == old(w).current_actor() && final(w).poisoned() == old(w).poisoned() && final(w).mmon() == old(w).mmon() && final(w).cap_cell() == old(w).cap_cell() && final(w).id_floor() == old(w).id_floor() && final(w).chan_floor() == old(w).chan_floor() && final(w).dl_count() == old(w).dl_count() && final(w).own_strong() == old(w).own_strong() && final(w).cells() == old(w).cells()"),
    ],
    requires=[C("wait_for_guard.drop.pre.unlocked", "C12", "!old(w).lock_held()")])


# ------------------------------------------------------------------ metrics (feature "metrics")
MC = "metrics/collector.rs::MetricsCollector::"
SPECS["metrics/collector.rs::MetricsCollector"] = dict()
SPECS[MC + "new"] = dict(ensures=[
    C("metrics.new.cells_fresh_and_zero", "C20", "r.cells_known(*final(w)) && r.coll_inv(*final(w)) && final(w).cells()[r.message_count.cell()] == 0"),
    C("metrics.new.frame", "C12", "final(w).log() == old(w).log() && same_ambient_but_cells(*old(w), *final(w))"),
])
RM_PRE = "(self.cells_known(*old(w)) && old(w).cells()[self.message_count.cell()] < u64::MAX && self.coll_inv(*old(w)))"
SPECS[MC + "record_message"] = dict(
    ensures=[
        C("metrics.record.count_plus_exactly_one", "C20", RM_PRE + " ==> final(w).cells()[self.message_count.cell()] == old(w).cells()[self.message_count.cell()] + 1"),
        C("metrics.record.max_is_at_least_this_duration", "C20", RM_PRE +
          " ==> (final(w).cells()[self.max_processing_nanos.cell()] as nat >= sat_nanos(duration) && final(w).cells()[self.max_processing_nanos.cell()] >= old(w).cells()[self.max_processing_nanos.cell()])"),
        C("metrics.record.total_saturating_add", "C20", RM_PRE +
          " ==> final(w).cells()[self.total_processing_nanos.cell()] as nat == sat_add_spec(old(w).cells()[self.total_processing_nanos.cell()] as nat, sat_nanos(duration))"),
        C("metrics.record.invariant_total_le_count_times_max", "C20", RM_PRE + " ==> (self.cells_known(*final(w)) && self.coll_inv(*final(w)))"),
        C("metrics.record.one_record_event_on_this_collector", "C20", "final(w).mmon() == mstep(old(w).mmon(), MEv::Record(self.cid()))"),
        C("metrics.record.frame", "C12 C20",
          "final(w).current_actor() == old(w).current_actor() && final(w).lock_held() == old(w).lock_held() && final(w).own_strong() == old(w).own_strong() && final(w).graph() == old(w).graph() && final(w).poisoned() == old(w).poisoned()"),
    ],
    proofs=[("self.update_last_activity(w);", "proof { if " + RM_PRE + " { lemma_coll_inv_step(old(w).cells()[self.message_count.cell()] as int, old(w).cells()[self.total_processing_nanos.cell()] as int, old(w).cells()[self.max_processing_nanos.cell()] as int, sat_nanos(duration) as int); } } vx_mmon_note(Ghost(MEv::Record(self.cid())), w);", "before")],
)
SPECS[MC + "message_count"] = dict(ensures=[
    C("metrics.message_count.reads_the_count_cell", "C20", "self.cells_known(*old(w)) ==> r == old(w).cells()[self.message_count.cell()]")])
SPECS[MC + "max_processing_time"] = dict(ensures=[
    C("metrics.max_processing_time.reads_the_max_cell", "C20", "self.cells_known(*old(w)) ==> dur_nanos(r) == old(w).cells()[self.max_processing_nanos.cell()] as nat")])
SPECS[MC + "avg_processing_time"] = dict(binders={"count": r"let\s+(\w+)\s*=\s*self\s*\.\s*message_count\s*\.\s*load", "total": r"let\s+(\w+)\s*=\s*self\s*\.\s*total_processing_nanos\s*\.\s*load"}, ensures=[
    C("metrics.avg.is_total_over_count", "C20", "self.cells_known(*old(w)) ==> dur_nanos(r) == avg_spec(old(w).cells()[self.total_processing_nanos.cell()] as nat, old(w).cells()[self.message_count.cell()] as nat)"),
    C("metrics.avg.le_max_under_invariant", "C20", "(self.cells_known(*old(w)) && self.coll_inv(*old(w))) ==> dur_nanos(r) <= old(w).cells()[self.max_processing_nanos.cell()] as nat"),
], proofs=[([r"let\s+\w+\s*=\s*self\s*\.\s*total_processing_nanos\s*\.\s*load\s*\([^;]*\)\s*;"],
            "proof { if self.cells_known(*old(w)) && self.coll_inv(*old(w)) { lemma_avg_le_max($total as int, $count as int, old(w).cells()[self.max_processing_nanos.cell()] as int); } }", "after")])
SPECS[MC + "snapshot"] = dict(binders={"count": r"let\s+(\w+)\s*=\s*self\s*\.\s*message_count\s*\.\s*load", "total": r"let\s+(\w+)\s*=\s*self\s*\.\s*total_processing_nanos\s*\.\s*load"}, ensures=[
    C("metrics.snapshot.agrees_with_accessors", "C20",
      "self.cells_known(*old(w)) ==> (r.message_count == old(w).cells()[self.message_count.cell()] "
      "&& dur_nanos(r.avg_processing_time) == avg_spec(old(w).cells()[self.total_processing_nanos.cell()] as nat, old(w).cells()[self.message_count.cell()] as nat) "
      "&& dur_nanos(r.max_processing_time) == old(w).cells()[self.max_processing_nanos.cell()] as nat)"),
    C("metrics.snapshot.avg_le_max_under_invariant", "C20",
      "(self.cells_known(*old(w)) && self.coll_inv(*old(w))) ==> dur_nanos(r.avg_processing_time) <= dur_nanos(r.max_processing_time)"),
], proofs=[([r"let\s+\w+\s*=\s*self\s*\.\s*total_processing_nanos\s*\.\s*load\s*\([^;]*\)\s*;"],
            "proof { if self.cells_known(*old(w)) && self.coll_inv(*old(w)) && $count > 0 { lemma_avg_le_max($total as int, $count as int, old(w).cells()[self.max_processing_nanos.cell()] as int); } }", "after")])
SPECS["metrics/collector.rs::MessageProcessingGuard::new"] = dict(ensures=[
    C("metrics.guard.new.opens_on_given_collector", "C20", "r.collector == collector && final(w).mmon() == mstep(old(w).mmon(), MEv::Open(collector.cid()))"),
    C("metrics.guard.new.frame", "C12 C20",
      "final(w).log() == old(w).log() && final(w).current_actor() == old(w).current_actor() && final(w).lock_held() == old(w).lock_held() && final(w).own_strong() == old(w).own_strong() && final(w).cells() == old(w).cells()"),
], proofs=[("{ /*V0*/", "vx_mmon_note(Ghost(MEv::Open(collector.cid())), w);", "after")])
SPECS["metrics/collector.rs::Drop for MessageProcessingGuard::drop"] = dict(by_value=True,
    ensures=[
        C("metrics.guard.drop.records_once_on_its_collector", "C20", "final(w).mmon() == mstep(old(w).mmon(), MEv::Record(this.collector.cid()))"),
        C("metrics.guard.drop.frame", "C12 C20",
          "final(w).current_actor() == old(w).current_actor() && final(w).lock_held() == old(w).lock_held() && final(w).own_strong() == old(w).own_strong()"),
    ])
SPECS["actor_ref.rs::ActorRef::metrics_collector"] = dict(pure=True, ensures=[
    C("actor_ref.metrics_collector.is_own_collector", "C20", "r.cid() == self.metrics.cid()")])


# ------------------------------------------------------------------ metrics handles: every derived handle shares the collector (C20)
def _with_metrics(key, extra):
    base = SPECS[key]
    def f(features, base=base, extra=extra):
        d = dict(base(features) if callable(base) else base)
        if "metrics" in features:
            d["ensures"] = list(d.get("ensures", [])) + extra
        return d
    SPECS[key] = f


_with_metrics("actor_ref.rs::ActorRef::new", [C("actor_ref.new.keeps_given_collector", "C20", "r.metrics.cid() == metrics.cid()")])
_with_metrics("actor_ref.rs::ActorRef::downgrade", [C("actor_ref.downgrade.shares_collector", "C20", "r.metrics.cid() == this.metrics.cid()")])
_with_metrics("actor_ref.rs::Clone for ActorRef::clone", [C("actor_ref.clone.shares_collector", "C20", "r.metrics.cid() == self.metrics.cid()")])
_with_metrics("actor_ref.rs::Clone for ActorWeak::clone", [C("actor_weak.clone.shares_collector", "C20", "r.metrics.cid() == self.metrics.cid()")])
_with_metrics("actor_ref.rs::ActorWeak::upgrade", [C("actor_weak.upgrade.shares_collector", "C20", "result matches Some(a) ==> a.metrics.cid() == self.metrics.cid()")])
AR = "actor_ref.rs::ActorRef::"
SPECS[AR + "message_count"] = dict(ensures=[
    C("actor_ref.message_count.is_collectors", "C20", "self.metrics.cells_known(*old(w)) ==> r == old(w).cells()[self.metrics.message_count.cell()]")])
SPECS[AR + "max_processing_time"] = dict(ensures=[
    C("actor_ref.max_processing_time.is_collectors", "C20", "self.metrics.cells_known(*old(w)) ==> dur_nanos(r) == old(w).cells()[self.metrics.max_processing_nanos.cell()] as nat")])
SPECS[AR + "avg_processing_time"] = dict(ensures=[
    C("actor_ref.avg_processing_time.is_collectors", "C20",
      "self.metrics.cells_known(*old(w)) ==> dur_nanos(r) == avg_spec(old(w).cells()[self.metrics.total_processing_nanos.cell()] as nat, old(w).cells()[self.metrics.message_count.cell()] as nat)")])
SPECS[AR + "metrics"] = dict(ensures=[
    C("actor_ref.metrics.snapshot_is_collectors", "C20",
      "self.metrics.cells_known(*old(w)) ==> (r.message_count == old(w).cells()[self.metrics.message_count.cell()] && dur_nanos(r.max_processing_time) == old(w).cells()[self.metrics.max_processing_nanos.cell()] as nat)")])


# ====================================================================== metadata used by ./check
# feature sets (besides default) a property's quick check needs
PROPERTY_FEATURES = {
    "C01": [("deadlock-detection",)], "C03": [("deadlock-detection",)], "C04": [("deadlock-detection",)],
    "C07": [("metrics",)], "C10": [("deadlock-detection",)], "C11": [("metrics",)],
    "C12": [("deadlock-detection",)], "C13": [("test-utils",)], "C14": [("deadlock-detection",)],
    "C15": [("deadlock-detection",)], "C16": [("deadlock-detection",)], "C20": [("metrics",)],
}

# labels that live in shim/glue (preconditions of trusted primitives) -> properties they serve
EXTRA_LABELS = {
    "handle_message.pre.scope@dyn": "C14",
    "ask.deadlock_panic.requires_unanswered_chain": "C15",
    "ask.deadlock_panic.leaves_graph_as_found": "C12 C15",
    "L1.handled_is_ordered_prefix_of_accepted_before_stop": "C01 C02",
    "L1.stop_marker_taken_implies_all_earlier_work_handled": "C01 C02 C07",
    "ask.deadlock_panic.only_for_tracked_callers": "C15",
    "mutex.no_reentrant_lock": "C12 C14",
    "hook.on_start.inside_actor_scope": "C14",
    "hook.inside_actor_scope": "C14",
    "hook.called_without_wait_for_lock": "C12",
    "panic_site.wait_for_lock_not_held": "C12",
    "mpsc.send.message_keeps_this_mailbox_alive": "C01 C07",
    "timeout.inner_log_extends": "C10",
    "framework.no_unexpected_panic": "C12 C15 C03 C01",
    "framework.hook_panics_must_propagate": "C04 C05 C12",
    "handle_message.pre.unlocked@dyn": "C12",
    "spawn.lifecycle_gets_refs_mailbox": "C01 C02 C09",
    "spawn.lifecycle_gets_refs_control": "C06",
    "spawn.lifecycle_distinct_channels": "C06",
    "capacity_cell.only_nonzero_values": "C09",
    "mpsc.channel.capacity_positive": "C09",
}

# unlabelled verifier failures (overflow, unlabelled shim precondition) inside a function are attributed
# to the properties the function serves
FUNCTION_PROPERTIES = {
    "run_actor_lifecycle": "C01 C02 C04 C05 C06 C07 C08 C12 C14 C20",
    "handle_message": "C01 C03",
    "tell": "C01 C02 C09 C13", "tell_with_timeout": "C01 C10 C13", "ask": "C01 C03 C13 C14 C15", "ask_with_timeout": "C03 C10 C13 C15",
    "kill": "C06", "stop": "C01 C02 C07", "blocking_tell": "C17", "blocking_tell_no_timeout": "C17 C13", "blocking_ask": "C17",
    "blocking_ask_no_timeout": "C17 C13", "tell_blocking": "C17", "ask_blocking": "C17", "ask_join": "C03",
    "spawn": "C09 C11", "spawn_with_mailbox_capacity": "C09 C11", "set_default_mailbox_capacity": "C09",
    "record": "C13", "has_path": "C14 C15", "drop": "C15 C12 C20", "record_message": "C20", "snapshot": "C20",
    "upgrade": "C07 C11", "is_alive": "C11", "downgrade": "C07 C11", "clone": "C07 C11", "clone_boxed": "C16", "from": "C16",
}

FEATURE_INDEPENDENT = {"C01", "C02", "C03", "C04", "C05", "C06", "C07", "C08", "C09", "C10", "C11", "C13", "C16", "C17"}

# properties part of whose code is not under contract: fixed bounded scenarios stand in (labelled bounded)
ALWAYS_STAND_IN = {"C17": ["blocking_timeout", "blocking_api", "blocking_parked_then_dies"], "C10": ["blocking_timeout", "blocking_parked_then_dies"],
                   "C13": ["blocking_timeout", "blocking_api", "blocking_parked_then_dies"], "C01": ["blocking_timeout", "blocking_parked_then_dies"]}
# fixed scenarios that stand in when a property's text is undecided by extraction (besides the schedule explorer)
_DD = ["dd_cycles", "dd_no_residue", "dd_cycle_first_edge_parked"]
UNDECIDED_STAND_IN = {
    "C12": _DD, "C14": _DD, "C15": _DD,
    "C11": ["identity_and_liveness", "erased_handles", "sends_to_stopped"],
    "C16": ["erased_handles"], "C20": ["metrics_counts"],
    "C05": ["lifecycle_basic", "run_err", "start_fail", "stop_err_on_kill", "kill_preempt", "hook_panics"],
    "C04": ["lifecycle_basic", "run_err", "start_fail", "stop_err_on_kill", "hook_panics"],
    "C03": ["ask_reply_integrity", "ask_join_outlives_actor", "sends_to_stopped"],
    # feature-gated code outside the rules: the scenarios are run with every feature enabled
    "C18": _DD + ["lifecycle_basic", "ask_reply_integrity", "sends_to_stopped", "kill_preempt"],
}

# labels of obligations that only exist for code the change itself added (new panic sites): a failure is a violation only when a
# witness or the explorer makes it fire on the real crate, otherwise the property is undecided
SOFT_LABELS = {"framework.no_unexpected_panic"}

NOT_APPLICABLE = {
    "C19": "proc-macro token generation (syn/quote) is outside every installed deductive verifier; the runtime half "
           "(on_tell_result only on tell) is an obligation of handle_message reported under C03",
}

TRUSTED_BASE = [
    "shim/prelude.rs: assumed contracts of tokio mpsc/oneshot/time/task, std sync primitives, tracing (A1-A11)",
    "shim/prelude.rs: Actor/Message hook contracts (user code is arbitrary; it advances the ghost monitor by one event per call)",
    "contracts/glue.rs: external_body dispatchers for lifted dyn methods and tokio::spawn of the lifecycle",
    "vx extraction rules R1-R13 (build/<fs>/extraction_report.json shows the diff per function)",
    "Verus 0.2026.09.13, Z3",
]

ASSUMPTIONS = [
    "A1 tokio mpsc bounded channel: linearizable FIFO, send Ok iff enqueued, Err iff receiver closed/dropped, occupancy <= capacity",
    "A2 cancel safety of mpsc send / oneshot receive; tokio::time::timeout polls the inner future first",
    "A3 tokio::select!: guards once, textual poll order under `biased;`, random start otherwise, first Ready wins",
    "A4 tokio sender counting; WeakSender does not keep the channel open",
    "A5 close-on-drop of receivers and unsent oneshot senders",
    "A6 Rust move/drop/unwind semantics; implicit drops are invisible except where rule R9 makes them explicit",
    "A7 tokio task isolation: a panic is confined to its task and surfaces as JoinError",
    "A8 tokio timer punctuality (not decided by contracts)",
    "A9 tracing spans / log macros have no effect on control or data flow (dropped by R1/R3)",
    "A10 atomics are atomic RMWs; machine integers as in Rust (Verus checks overflow in extracted code)",
    "A11 Instant / SystemTime values are opaque",
    "A12 extraction rules preserve meaning (async erasure with suspension markers, select! desugaring, World threading)",
    "A13 Verus and Z3 are sound",
    "A14 rule H: std::thread::spawn runs the closure to completion on a fresh thread (no task-local identity, no lock held) unless it panics; std mpsc delivers the one value sent, recv fails iff the sender "
    "was dropped unsent; Runtime::block_on returns the future's output; Builder::build may fail (logged as environment fault RtBuildFailed)",
]

NOT_UNDER_CONTRACT = [
    "format_cycle_path, Display / debugging_tips / debug_fmt impls",
    "rsactor-derive (proc-macro crate)",
    "user hook bodies (arbitrary)",
]

PROPERTY_NOTES = {}
