#!/bin/sh
# Offline setup: nothing to build besides a warm-up of the Verus cache directory layout.
set -e
cd "$(dirname "$0")"
mkdir -p build evidence replays
command -v verus >/dev/null || { echo "verus not on PATH"; exit 1; }
python3 -c "import sys; sys.exit(0)"
echo "setup ok"
