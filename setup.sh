#!/bin/sh
# Offline setup: directories, tool presence, and a warm build of the replay crate (real rsactor + real tokio from the local
# cargo registry) so that the first witness / bounded stand-in run does not pay the dependency compile time.
set -e
cd "$(dirname "$0")"
mkdir -p build evidence replays
command -v verus >/dev/null || { echo "verus not on PATH"; exit 1; }
python3 -c "import sys; sys.exit(0)"
CARGO_NET_OFFLINE=true CARGO_TARGET_DIR="$(pwd)/build/replay-target" cargo build --offline -q \
    --manifest-path replay/Cargo.toml --features test-utils,metrics >/dev/null 2>&1 || echo "note: replay crate warm build failed (it is rebuilt on demand)"
echo "setup ok"
