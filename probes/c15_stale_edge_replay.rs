use rsactor::{spawn, Actor, ActorRef, Message};

struct A { b: Option<ActorRef<B>> }
struct B { a: Option<ActorRef<A>> }
struct SetB(ActorRef<B>);
struct SetA(ActorRef<A>);
struct Go;      // A: ask B Ping  (A -> B edge)
struct Ping;    // B: reply immediately
struct Later;   // B: afterwards, ask A Echo  (B -> A, no cycle in time: A's ask was already answered)
struct Echo;

impl Actor for A { type Args = (); type Error = std::convert::Infallible;
    async fn on_start(_: (), _: &ActorRef<Self>) -> Result<Self, Self::Error> { Ok(A { b: None }) } }
impl Actor for B { type Args = (); type Error = std::convert::Infallible;
    async fn on_start(_: (), _: &ActorRef<Self>) -> Result<Self, Self::Error> { Ok(B { a: None }) } }
impl Message<SetB> for A { type Reply = (); async fn handle(&mut self, m: SetB, _: &ActorRef<Self>) { self.b = Some(m.0); } }
impl Message<SetA> for B { type Reply = (); async fn handle(&mut self, m: SetA, _: &ActorRef<Self>) { self.a = Some(m.0); } }
impl Message<Go> for A { type Reply = u32; async fn handle(&mut self, _: Go, _: &ActorRef<Self>) -> u32 {
    let b = self.b.as_ref().unwrap();
    let ask = b.ask(Ping);
    tokio::pin!(ask);
    // first poll: registers the edge A->B and enqueues Ping
    assert!(futures::poll!(ask.as_mut()).is_pending());
    // queue Later right behind Ping, then wait for the Ping reply
    b.tell(Later).await.unwrap();
    ask.await.unwrap() } }
impl Message<Ping> for B { type Reply = u32; async fn handle(&mut self, _: Ping, _: &ActorRef<Self>) -> u32 { 7 } }
impl Message<Echo> for A { type Reply = u32; async fn handle(&mut self, _: Echo, _: &ActorRef<Self>) -> u32 { 9 } }
impl Message<Later> for B { type Reply = u32; async fn handle(&mut self, _: Later, _: &ActorRef<Self>) -> u32 {
    // A's ask(Ping) has been answered by now; A is not waiting for B in any real sense.
    self.a.as_ref().unwrap().ask(Echo).await.unwrap() } }

#[tokio::main(flavor = "current_thread")]
async fn main() {
    let (a, _ja) = spawn::<A>(());
    let (b, jb) = spawn::<B>(());
    a.ask(SetB(b.clone())).await.unwrap();
    b.ask(SetA(a.clone())).await.unwrap();
    // queue Go for A, let A run until it is suspended in ask(Ping) with Ping queued at B,
    a.tell(Go).await.unwrap();
    // then queue Later behind Ping in B's mailbox before B runs.
    // A runs first (spawned earlier / woken first); we yield once so A enqueues Ping.
    tokio::task::yield_now().await;
    tokio::task::yield_now().await; tokio::task::yield_now().await;
    let probe = b.ask(Ping).await;
    println!("probe ask to B = {:?}", probe.map_err(|e| e.to_string()));
    let _ = a.kill(); let _ = b.kill();
    drop(a); drop(b);
    match jb.await { Ok(_) => println!("B ended normally"), Err(e) => println!("B task JoinError: panic={}", e.is_panic()) }
}
