use vstd::prelude::*;
use std::marker::PhantomData;

// ---- macro_rules extracted from src/actor.rs after R1 (cfg: default features) and R4 (await erasure)
macro_rules! run_with_actor_scope {
    ($actor_id:expr, $fut:expr) => {{
        {
            $fut
        }
    }};
}
macro_rules! with_actor_scope {
    ($actor_id:expr, $fut:expr) => {{
        {
            $fut
        }
    }};
}

verus! {

// ======================= SHIM (trusted environment contracts) =======================
pub enum Poll<T> { Ready(T), Pending }

#[derive(Clone, Copy)]
pub struct Identity { pub id: u64 }

pub enum Src { Control, Mailbox, Idle }

/// Ghost alphabet of everything the lifecycle function does to / observes about its actor.
pub enum Obs { Signal, Closed, Envelope(int), StopMark, Done }
pub enum Ev<E> {
    Started,
    Poll(Src),                         // select is about to poll the future of source Src
    Fired(Src, Obs),                   // that poll was Ready and select resolved to this branch
    Handled(int),                      // handler for envelope #id entered and completed
    RunDone(Result<bool, E>),          // on_run future completed with this value
    Stopped(bool, Option<E>),          // on_stop(killed) completed with Ok / Err(e)
}

#[derive(Clone, Copy)]
pub struct Span;
impl Span { pub fn none() -> Span { Span } }
pub trait Instrument: Sized {
    fn instrument(self, span: Span) -> (r: Self) ensures r == self;
}
impl<T> Instrument for T { fn instrument(self, span: Span) -> (r: Self) { self } }

#[verifier::external_body]
#[verifier::reject_recursive_types(T)]
pub struct ActorRef<T: Actor> { _p: PhantomData<T> }
#[verifier::external_body]
#[verifier::reject_recursive_types(T)]
pub struct ActorWeak<T: Actor> { _p: PhantomData<T> }
impl<T: Actor> ActorRef<T> {
    #[verifier::external_body]
    pub fn identity(&self) -> Identity { unimplemented!() }
    #[verifier::external_body]
    pub fn downgrade(this: &Self) -> ActorWeak<T> { unimplemented!() }
}
#[verifier::external_body]
pub fn drop<X>(x: X) { }

pub trait Actor: Sized {
    type Args;
    type Error;
    spec fn mon(&self) -> Mon<Self::Error>;
    spec fn start_spec(args: Self::Args) -> Result<Self, Self::Error>;

    fn on_start(args: Self::Args, actor_ref: &ActorRef<Self>) -> (r: Result<Self, Self::Error>)
        ensures r == Self::start_spec(args),
                r is Ok ==> r->Ok_0.mon() == step(mon_init::<Self::Error>(), Ev::Started);

    fn poll_on_run(&mut self, actor_weak: &ActorWeak<Self>) -> (r: Poll<Result<bool, Self::Error>>)
        ensures
            r is Pending ==> final(self).mon() == old(self).mon(),
            r is Ready ==> final(self).mon() == step(old(self).mon(), Ev::RunDone(r->Ready_0));

    fn on_stop(&mut self, actor_weak: &ActorWeak<Self>, killed: bool) -> (r: Result<(), Self::Error>)
        ensures final(self).mon() == step(old(self).mon(), Ev::Stopped(killed, match r { Ok(_) => None, Err(e) => Some(e) }));

    // ghost-only bookkeeping used by the select! desugaring (rule S)
    fn note(&mut self, Ghost(e): Ghost<Ev<Self::Error>>)
        ensures final(self).mon() == step(old(self).mon(), e);
}

pub open spec fn obs_ctl(v: Option<ControlSignal>) -> Obs { if v is Some { Obs::Signal } else { Obs::Closed } }
pub open spec fn obs_msg<T: Actor>(v: Option<MailboxMessage<T>>) -> Obs {
    match v { Some(MailboxMessage::Envelope { payload, .. }) => Obs::Envelope(payload.id()), Some(MailboxMessage::StopGracefully(_)) => Obs::StopMark, None => Obs::Closed }
}
pub enum ControlSignal { Terminate }

#[verifier::external_body]
#[verifier::reject_recursive_types(T)]
pub struct Payload<T: Actor> { _p: PhantomData<T> }
#[verifier::external_body]
pub struct ReplyTx { }
impl<T: Actor> Payload<T> {
    pub uninterp spec fn id(&self) -> int;
    #[verifier::external_body]
    pub fn handle_message(self, actor: &mut T, actor_ref: ActorRef<T>, reply_channel: Option<ReplyTx>)
        ensures final(actor).mon() == step(old(actor).mon(), Ev::Handled(self.id()))
    { unimplemented!() }
}

#[verifier::reject_recursive_types(T)]
pub enum MailboxMessage<T: Actor> {
    Envelope { payload: Payload<T>, reply_channel: Option<ReplyTx>, actor_ref: ActorRef<T> },
    StopGracefully(ActorRef<T>),
}

#[verifier::external_body]
#[verifier::reject_recursive_types(M)]
pub struct Receiver<M> { _p: PhantomData<M> }
impl<M> Receiver<M> {
    pub uninterp spec fn src(&self) -> Src;
    #[verifier::external_body]
    pub fn poll_recv(&mut self) -> (r: Poll<Option<M>>)
        ensures final(self).src() == old(self).src()
    { unimplemented!() }
    #[verifier::external_body]
    pub fn close(&mut self) ensures final(self).src() == old(self).src() { }
}

#[verifier::external_body]
pub fn yield_now() { }

// ======================= EXTRACTED TYPES (verbatim) =======================
pub enum FailurePhase { OnStart, OnRun, OnStop, OnRunThenOnStop }

pub enum ActorResult<T: Actor> {
    Completed { actor: T, killed: bool },
    Failed { actor: Option<T>, error: T::Error, phase: FailurePhase, killed: bool },
}

// select! output (rule S)
pub enum Out3<A, B, C> { B0(A), B1(B), B2(C) }

// ======================= CONTRACT VOCABULARY: safety monitor =======================
pub enum Cause<E> { Killed, RefsDropped, StopMarker, MailboxClosed, RunErr(E) }
pub enum Ph<E> {
    Init,
    Head,                       // between passes / after a completed handler or on_run
    C,                          // control polled (pending so far)
    CM,                         // control + mailbox polled, both pending
    CMI,                        // + idle polled
    FiredC(Obs),
    FiredM(Obs),
    Ran(Result<bool, E>),       // on_run completed right after being polled
    FiredI(Result<bool, E>),
    Stopped(bool, Option<E>, Cause<E>),
}
pub struct Mon<E> { pub ph: Ph<E>, pub bad: bool, pub idle_off: bool }
pub open spec fn mon_init<E>() -> Mon<E> { Mon { ph: Ph::Init, bad: false, idle_off: false } }
pub open spec fn step<E>(m: Mon<E>, e: Ev<E>) -> Mon<E> {
    let bad = Mon { ph: m.ph, bad: true, idle_off: m.idle_off };
    if m.bad { m } else {
    match e {
        Ev::Started => if m.ph is Init { Mon { ph: Ph::Head, ..m } } else { bad },
        Ev::Poll(Src::Control) => match m.ph {
            Ph::Head | Ph::CM | Ph::CMI => Mon { ph: Ph::C, ..m },
            Ph::FiredI(Ok(_)) => Mon { ph: Ph::C, ..m },
            _ => bad },
        Ev::Poll(Src::Mailbox) => if m.ph is C { Mon { ph: Ph::CM, ..m } } else { bad },
        Ev::Poll(Src::Idle) => if m.ph is CM && !m.idle_off { Mon { ph: Ph::CMI, ..m } } else { bad },
        Ev::Fired(Src::Control, o) => if m.ph is C && (o is Signal || o is Closed) { Mon { ph: Ph::FiredC(o), ..m } } else { bad },
        Ev::Fired(Src::Mailbox, o) => if m.ph is CM && (o is Envelope || o is StopMark || o is Closed) { Mon { ph: Ph::FiredM(o), ..m } } else { bad },
        Ev::RunDone(v) => if m.ph is CMI { Mon { ph: Ph::Ran(v), bad: false, idle_off: v == Ok::<bool, E>(false) } } else { bad },
        Ev::Fired(Src::Idle, o) => match m.ph { Ph::Ran(v) => Mon { ph: Ph::FiredI(v), ..m }, _ => bad },
        Ev::Handled(id) => if m.ph == Ph::<E>::FiredM(Obs::Envelope(id)) { Mon { ph: Ph::Head, ..m } } else { bad },
        Ev::Stopped(k, err) => match m.ph {
            Ph::FiredC(Obs::Signal) => if k { Mon { ph: Ph::Stopped(k, err, Cause::Killed), ..m } } else { bad },
            Ph::FiredC(Obs::Closed) => if !k { Mon { ph: Ph::Stopped(k, err, Cause::RefsDropped), ..m } } else { bad },
            Ph::FiredM(Obs::StopMark) => if !k { Mon { ph: Ph::Stopped(k, err, Cause::StopMarker), ..m } } else { bad },
            Ph::FiredM(Obs::Closed) => if !k { Mon { ph: Ph::Stopped(k, err, Cause::MailboxClosed), ..m } } else { bad },
            Ph::FiredI(Err(e)) => if !k { Mon { ph: Ph::Stopped(k, err, Cause::RunErr(e)), ..m } } else { bad },
            _ => bad },
    } }
}

pub open spec fn lifecycle_post<T: Actor>(args: T::Args, r: ActorResult<T>) -> bool {
    match T::start_spec(args) {
        Err(e0) => r matches ActorResult::Failed { actor: None, error, phase: FailurePhase::OnStart, killed: false } && error == e0,
        Ok(_) => match r {
            ActorResult::Completed { actor, killed } => !actor.mon().bad && (actor.mon().ph matches Ph::Stopped(k, None, c) && k == killed && !(c is RunErr)),
            ActorResult::Failed { actor: None, .. } => false,
            ActorResult::Failed { actor: Some(actor), error, phase, killed } => !actor.mon().bad && match phase {
                FailurePhase::OnStart => false,
                FailurePhase::OnStop => actor.mon().ph matches Ph::Stopped(k, Some(e), c) && k == killed && e == error && !(c is RunErr),
                FailurePhase::OnRun => !killed && actor.mon().ph == Ph::<T::Error>::Stopped(false, None, Cause::RunErr(error)),
                FailurePhase::OnRunThenOnStop => !killed && (actor.mon().ph matches Ph::Stopped(false, Some(_), Cause::RunErr(e)) && e == error),
            },
        },
    }
}

pub open spec fn at_head<E>(m: Mon<E>) -> bool {
    !m.bad && (m.ph is Head || m.ph is CM || m.ph is CMI || m.ph matches Ph::FiredI(Ok(_)))
}
pub open spec fn loop_inv<T: Actor>(actor: T, idle_enabled: bool, killed: bool) -> bool {
    at_head(actor.mon()) && !killed && (idle_enabled ==> !actor.mon().idle_off)
        && (actor.mon().ph is CM ==> !idle_enabled)
}
pub open spec fn sel_post<T: Actor>(actor: T, out: Out3<Option<ControlSignal>, Option<MailboxMessage<T>>, Result<bool, T::Error>>) -> bool {
    !actor.mon().bad && match out {
        Out3::B0(v) => actor.mon().ph == Ph::<T::Error>::FiredC(obs_ctl(v)),
        Out3::B1(v) => actor.mon().ph == Ph::<T::Error>::FiredM(obs_msg(v)),
        Out3::B2(v) => actor.mon().ph == Ph::<T::Error>::FiredI(v),
    }
}

// ======================= EXTRACTED FUNCTION: src/actor.rs::run_actor_lifecycle =======================
#[verifier::exec_allows_no_decreases_clause]
pub fn run_actor_lifecycle<T: Actor>(
    args: T::Args,
    actor_ref: ActorRef<T>,
    mut receiver: Receiver<MailboxMessage<T>>,
    mut terminate_receiver: Receiver<ControlSignal>,
) -> (r: ActorResult<T>)
    requires
        receiver.src() is Mailbox,
        terminate_receiver.src() is Control,
    ensures
        lifecycle_post(args, r),
{
    let actor_id = actor_ref.identity();

    let on_start_span = Span::none();

    let mut actor = match run_with_actor_scope!(
        actor_id,
        T::on_start(args, &actor_ref).instrument(on_start_span)
    ) {
        Ok(actor) => {
            actor
        }
        Err(e) => {
            return ActorResult::Failed {
                actor: None,
                error: e,
                phase: FailurePhase::OnStart,
                killed: false,
            };
        }
    };

    let actor_weak = ActorRef::downgrade(&actor_ref);
    drop(actor_ref); // Drop the strong reference to allow graceful shutdown detection

    let mut killed = false;
    let mut idle_enabled = true;

    loop
        invariant_except_break
            loop_inv(actor, idle_enabled, killed),
        invariant
            T::start_spec(args) is Ok,
            receiver.src() is Mailbox,
            terminate_receiver.src() is Control,
        ensures
            !actor.mon().bad && (actor.mon().ph matches Ph::Stopped(k, None, c) && k == killed && !(c is RunErr)),
    {
        let on_run_span = Span::none();

        // ---- rule S: tokio::select! { biased; ... } ----
        let __en2 = idle_enabled;
        let __out;
        loop
            invariant_except_break
                loop_inv(actor, idle_enabled, killed),
            invariant
                !killed,
                __en2 == idle_enabled,
                receiver.src() is Mailbox,
                terminate_receiver.src() is Control,
            ensures
                sel_post(actor, __out),
                __out is B2 ==> idle_enabled,
                idle_enabled ==> !actor.mon().idle_off || (__out matches Out3::B2(Ok(false))),
        {
            actor.note(Ghost(Ev::Poll(terminate_receiver.src())));
            if let Poll::Ready(v) = terminate_receiver.poll_recv() { actor.note(Ghost(Ev::Fired(terminate_receiver.src(), obs_ctl(v)))); __out = Out3::B0(v); break; }
            actor.note(Ghost(Ev::Poll(receiver.src())));
            if let Poll::Ready(v) = receiver.poll_recv() { actor.note(Ghost(Ev::Fired(receiver.src(), obs_msg(v)))); __out = Out3::B1(v); break; }
            if __en2 {
                actor.note(Ghost(Ev::Poll(Src::Idle)));
                if let Poll::Ready(v) = with_actor_scope!(
                    actor_id,
                    actor.poll_on_run(&actor_weak).instrument(on_run_span)
                ) { actor.note(Ghost(Ev::Fired(Src::Idle, Obs::Done))); __out = Out3::B2(v); break; }
            }
            yield_now();
        }
        match __out {
            Out3::B0(maybe_terminate) => {
                match maybe_terminate {
                    Some(_) => {
                        killed = true;
                    }
                    None => {
                        killed = false;
                    }
                }

                let on_stop_span = Span::none();

                if let Err(e) = run_with_actor_scope!(
                    actor_id,
                    actor.on_stop(&actor_weak, killed).instrument(on_stop_span)
                ) {
                    return ActorResult::Failed {
                        actor: Some(actor),
                        error: e,
                        phase: FailurePhase::OnStop,
                        killed,
                    };
                }
                break; // Exit the loop
            }
            Out3::B1(maybe_message) => {
                match maybe_message {
                    Some(MailboxMessage::Envelope { payload, reply_channel, actor_ref }) => {
                        let msg_span = Span::none();

                        run_with_actor_scope!(
                            actor_id,
                            payload.handle_message(&mut actor, actor_ref, reply_channel)
                                .instrument(msg_span)
                        );
                    }
                    Some(MailboxMessage::StopGracefully(_)) | None => {
                        let on_stop_span = Span::none();

                        if let Err(e) = run_with_actor_scope!(
                            actor_id,
                            actor.on_stop(&actor_weak, false).instrument(on_stop_span)
                        ) {
                            return ActorResult::Failed {
                                actor: Some(actor),
                                error: e,
                                phase: FailurePhase::OnStop,
                                killed: false,
                            };
                        }

                        break;
                    }
                }
            }
            Out3::B2(maybe_result) => {
                match maybe_result {
                    Ok(true) => {
                    }
                    Ok(false) => {
                        idle_enabled = false;
                    }
                    Err(e) => {
                        let on_stop_span = Span::none();

                        let phase = if let Err(stop_err) = run_with_actor_scope!(
                            actor_id,
                            actor.on_stop(&actor_weak, false).instrument(on_stop_span)
                        ) {
                            FailurePhase::OnRunThenOnStop
                        } else {
                            FailurePhase::OnRun
                        };

                        return ActorResult::Failed {
                            actor: Some(actor),
                            error: e,
                            phase,
                            killed,
                        };
                    }
                }
            }
        }
    }

    receiver.close(); // Close the message mailbox
    terminate_receiver.close(); // Close the termination signal channel

    ActorResult::Completed { actor, killed }
}

} // verus!
fn main() {}
