use vstd::prelude::*;
use std::marker::PhantomData;
use std::time::Duration;
verus! {

#[derive(Clone, Copy)]
pub struct Identity { pub id: u64 }

pub enum Reason { ActorStopped, Timeout, ReplyDropped }
pub enum Eff {
    Await(int),                          // suspension point of kind k begins
    Enq(int, int),                       // (channel, message id) accepted by the mailbox
    Rejected(int, int),                  // send refused: channel closed
    DeadLetter(u64, Reason, Seq<char>),
}

#[verifier::external_body]
pub struct World { }
impl World {
    pub uninterp spec fn log(&self) -> Seq<Eff>;
}

pub struct Elapsed;

impl World {
    #[verifier::external_body]
    pub fn timeout_resolve<R>(&mut self, d: Duration, inner: R, Ghost(l0): Ghost<Seq<Eff>>) -> (r: Result<R, Elapsed>)
        requires l0.len() <= old(self).log().len()
        ensures
            (r == Ok::<R, Elapsed>(inner) && final(self).log() == old(self).log())
            || (r is Err && exists|k: int| l0.len() <= k < old(self).log().len() && (#[trigger] old(self).log()[k] is Await) && final(self).log() == old(self).log().take(k))
    { unimplemented!() }
}

#[verifier::external_body]
#[verifier::reject_recursive_types(T)]
pub struct Sender<T> { _p: PhantomData<T> }
pub struct SendError<T>(pub T);
pub trait HasId { spec fn mid(&self) -> int; }
impl<T: HasId> Sender<T> {
    pub uninterp spec fn chan(&self) -> int;
    #[verifier::external_body]
    pub fn send(&self, value: T, w: &mut World) -> (r: Result<(), SendError<T>>)
        ensures
            r is Ok ==> final(w).log() == old(w).log().push(Eff::Await(0)).push(Eff::Enq(self.chan(), value.mid())),
            r is Err ==> final(w).log() == old(w).log().push(Eff::Await(0)).push(Eff::Rejected(self.chan(), value.mid())) && r->Err_0.0 == value,
    { unimplemented!() }
}

pub enum Error {
    Send { identity: Identity, details: String },
    Timeout { identity: Identity, timeout: Duration, operation: String },
}
pub type Result2<T> = std::result::Result<T, Error>;

#[verifier::external_body]
pub fn record(identity: Identity, reason: Reason, operation: &'static str, w: &mut World)
    ensures final(w).log() == old(w).log().push(Eff::DeadLetter(identity.id, reason, operation@))
{ }

pub struct Env { pub m: int }
impl HasId for Env { open spec fn mid(&self) -> int { self.m } }

pub struct ActorRef { pub id: Identity, pub sender: Sender<Env> }

impl ActorRef {
    pub fn identity(&self) -> (r: Identity) ensures r == self.id { self.id }

    pub fn tell(&self, envelope: Env, w: &mut World) -> (result: Result2<()>)
        ensures
            result is Ok ==> final(w).log() == old(w).log().push(Eff::Await(0)).push(Eff::Enq(self.sender.chan(), envelope.m)),
            result is Err ==> (result->Err_0 is Send) && final(w).log() == old(w).log().push(Eff::Await(0)).push(Eff::Rejected(self.sender.chan(), envelope.m)).push(Eff::DeadLetter(self.id.id, Reason::ActorStopped, "tell"@)),
    {
        let result = if self.sender.send(envelope, w).is_err() {
            record(
                self.identity(),
                Reason::ActorStopped,
                "tell", w
            );
            Err(Error::Send {
                identity: self.identity(),
                details: "Mailbox channel closed".to_string(),
            })
        } else {
            Ok(())
        };

        result
    }

    pub fn tell_with_timeout(&self, envelope: Env, timeout: Duration, w: &mut World) -> (result: Result2<()>)
        ensures
            result is Ok ==> final(w).log() == old(w).log().push(Eff::Await(0)).push(Eff::Enq(self.sender.chan(), envelope.m)),
            (result is Err && result->Err_0 is Timeout) ==> final(w).log() == old(w).log().push(Eff::DeadLetter(self.id.id, Reason::Timeout, "tell"@)),
            (result is Err && result->Err_0 is Send) ==> final(w).log() == old(w).log().push(Eff::Await(0)).push(Eff::Rejected(self.sender.chan(), envelope.m)).push(Eff::DeadLetter(self.id.id, Reason::ActorStopped, "tell"@)),
    {
        // rule T + rule M applied to:  tokio::time::timeout(timeout, self.tell(msg)).await.map_err(|_| {...})?
        let result = match { let ghost __l0 = w.log(); let __inner = self.tell(envelope, w); w.timeout_resolve(timeout, __inner, Ghost(__l0)) } {
            Ok(__v) => Ok(__v),
            Err(_) => Err({
                record(
                    self.identity(),
                    Reason::Timeout,
                    "tell", w
                );
                Error::Timeout {
                    identity: self.identity(),
                    timeout,
                    operation: "tell".to_string(),
                }
            }),
        }?;

        result
    }
}

} // verus!
fn main() {}
