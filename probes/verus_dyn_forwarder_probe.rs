use vstd::prelude::*;
verus! {

#[verifier::external_body]
pub struct World { }
impl World {
    pub uninterp spec fn log(&self) -> Seq<int>;
    pub uninterp spec fn locked(&self) -> bool;
    #[verifier::external_body]
    pub fn panic_site(&mut self, site: u32) -> !
        requires !old(self).locked()
    { panic!() }
    #[verifier::external_body]
    pub fn eff(&mut self, x: i64) ensures final(self).log() == old(self).log().push(x as int), final(self).locked() == old(self).locked() { }
}

#[derive(Clone, Copy)]
pub struct ARef { pub id: u64 }

pub open spec fn r_stop(target: u64, l0: Seq<int>, l1: Seq<int>) -> bool { l1 == l0.push(1int) }
pub open spec fn r_kill(target: u64, l0: Seq<int>, l1: Seq<int>) -> bool { l1 == l0.push(-1int) }

impl ARef {
    pub fn stop(&self, w: &mut World) ensures r_stop(self.id, old(w).log(), final(w).log()) { w.eff(1i64); }
    pub fn kill(&self, w: &mut World) ensures r_kill(self.id, old(w).log(), final(w).log()) { w.eff(-1i64); }
}

pub trait Control {
    spec fn target(&self) -> u64;
    fn stop(&self, w: &mut World) ensures r_stop(self.target(), old(w).log(), final(w).log());
    fn kill(&self, w: &mut World) ensures r_kill(self.target(), old(w).log(), final(w).log());
}

impl Control for ARef {
    open spec fn target(&self) -> u64 { self.id }
    fn stop(&self, w: &mut World) { ARef::stop(self, w) }
    fn kill(&self, w: &mut World) { ARef::kill(self, w) }
}

// rule R10: trait method with a self-referential dyn return type, lifted out of the trait
pub fn clone_boxed__ARef__Control(this: &ARef) -> (r: Box<dyn Control>) ensures r.target() == this.id { Box::new(this.clone()) }

pub fn from__ARef__BoxControl(a: ARef) -> (r: Box<dyn Control>) ensures r.target() == a.id { Box::new(a) }

pub fn cap_check(n: usize, w: &mut World) -> (r: usize)
    requires !old(w).locked()
    ensures n > 0, r == n
{
    if !(n > 0) { w.panic_site(1) }
    n
}

pub fn use_dyn(c: &Box<dyn Control>, w: &mut World)
    ensures r_kill(c.target(), old(w).log(), final(w).log())
{ c.kill(w) }

} // verus!
fn main() {}
