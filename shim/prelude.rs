// =====================================================================================
// TRUSTED SHIM — assumed contracts on rsactor's dependencies (tokio, std sync, tracing) and on
// user code (Actor / Message hooks).  Everything here is an ASSUMPTION, listed in the evidence
// under trusted_base.  `#[cfg(feature = ..)]` lines are resolved by vx with the same resolver
// that is applied to /repo's sources.
//
// NOTE: inside this file `Result` is rsactor's own alias (`Result<T> = Result<T, Error>`), as in
// the crate; the two-parameter std type is spelled `core::result::Result`.
// =====================================================================================

// ---------------------------------------------------------------- ghost alphabets
pub enum Src { Chan(int), Idle }
pub enum Obs { Signal, Closed, Envelope(int), StopMark, Done }

/// Events of the per-actor safety monitor (DESIGN 2.4).
pub enum Ev<E> {
    Started,
    Poll(Src),
    Fired(Src, Obs),
    Handled(int),
    RunDone(core::result::Result<bool, E>),
    Stopped(bool, Option<E>),
}


/// Message views carried by `Enq` / `Rejected` effects.
pub enum MsgView {
    /// payload id, reply request id (None for tell), channel the embedded strong ActorRef points to
    Envelope { pid: int, req: Option<int>, holds: int },
    StopMark { holds: int },
    Signal,
    Other,
}

pub enum AwaitKind { Send, Reply, Join, Recv, Other }

pub enum OpaqueTag {
    /// environment fault: tokio could not build the helper thread's private runtime
    RtBuildFailed,
}

pub enum HookTag { Handle(int), TellResult(int), Start, Run, Stop }

/// Effect log alphabet (DESIGN 2.3).
pub enum Eff {
    Await(AwaitKind),
    Enq(int, MsgView),
    Rejected(int, MsgView),
    TryFull(int, MsgView),
    Ret(int, int),                 // handler for payload pid returned the value with id vid
    ReplySent(int, int),           // (request id, value id)
    ReplyLost(int, int),           // oneshot send failed: receiver gone
    TellResultDone(int),           // on_tell_result(&v) returned
    ReplyRecv(int, int),           // asker received value vid on request req
    ReplyClosed(int),              // asker observed the reply sender dropped
    NewReq(int),
    NewChan(int, nat),             // (chan id, capacity)
    /// the structured dead-letter log line: (actor id, actor type name, message type name, reason, operation)
    DeadLetterLog(u64, Seq<char>, Seq<char>, DeadLetterReason, Seq<char>),
    FetchAdd(int, u64),            // atomic RMW add on cell
    CellSet(int, usize, bool),     // OnceLock::set(cell, value) -> succeeded?
    CellGet(int, Option<usize>),
    /// the wait-for mutex was acquired and the graph seen was g / released leaving the graph g
    Lock(Map<u64, Identity>),
    Unlock(Map<u64, Identity>),
    Opaque(OpaqueTag),             // a call of a function that is NOT under contract
    Spawned(int, int, int),        // lifecycle task spawned on (mailbox chan, control chan, args id)
    Released(int),                 // a strong ActorRef to mailbox chan was dropped explicitly
    TimeoutArmed(Duration),
    ReadClosed(int, bool),
    ReadStrong(int, bool),         // weak.strong_count() > 0 observed
    Upgrade(int, bool),
    Closed(int),                   // receiver.close()
    Joined(int, bool),             // JoinHandle awaited: (task id, ok)
    Yield,
    Panic,
}

// ---------------------------------------------------------------- World: everything Rust hides
#[verifier::external_body]
pub struct World { _p: () }

impl World {
    pub uninterp spec fn log(&self) -> Seq<Eff>;
    /// task-local CURRENT_ACTOR of the running task
    pub uninterp spec fn current_actor(&self) -> Option<Identity>;
    /// this thread holds the wait-for-graph mutex
    pub uninterp spec fn lock_held(&self) -> bool;
    /// the wait-for-graph mutex is poisoned
    pub uninterp spec fn poisoned(&self) -> bool;
    /// wait-for graph as last observed/modified under the lock by this thread
    pub uninterp spec fn graph(&self) -> Map<u64, Identity>;
    /// metrics monitor
    pub uninterp spec fn mmon(&self) -> MMon;
    /// global cells
    pub uninterp spec fn cap_cell(&self) -> Option<usize>;
    /// every actor id handed out from now on is >= id_floor (monotone, hence stable under interference)
    pub uninterp spec fn id_floor(&self) -> int;
    /// every channel id created from now on is >= chan_floor
    pub uninterp spec fn chan_floor(&self) -> int;
    pub uninterp spec fn dl_count(&self) -> nat;
    /// values of single-writer atomic cells (per-actor metrics cells: written only by the actor's own loop)
    pub uninterp spec fn cells(&self) -> Map<int, u64>;
    /// the running lifecycle function still owns its by-value strong ActorRef (to mailbox chan)
    pub uninterp spec fn own_strong(&self) -> Option<int>;
}

/// What a call that is *not* a hook and *not* a lock operation leaves untouched.
pub open spec fn same_ambient(w0: World, w1: World) -> bool {
    &&& w1.current_actor() == w0.current_actor()
    &&& w1.lock_held() == w0.lock_held()
    &&& w1.poisoned() == w0.poisoned()
    &&& w1.graph() == w0.graph()
    &&& w1.mmon() == w0.mmon()
    &&& w1.cap_cell() == w0.cap_cell()
    &&& w1.id_floor() == w0.id_floor()
    &&& w1.chan_floor() == w0.chan_floor()
    &&& w1.dl_count() == w0.dl_count()
    &&& w1.own_strong() == w0.own_strong()
    &&& w1.cells() == w0.cells()
}

/// Arbitrary effects of user code (a hook body) on the log: an uninterpreted extension.
pub uninterp spec fn hook_log(l: Seq<Eff>, tag: HookTag) -> Seq<Eff>;

pub uninterp spec fn msg_id<M>(m: M) -> int;
pub uninterp spec fn val_id<R>(r: R) -> int;
pub uninterp spec fn type_id_of<M>() -> int;

// ---------------------------------------------------------------- metrics monitor
pub enum MPh { Idle, Open(int), Done(int) }
pub struct MMon { pub ph: MPh, pub bad: bool }
pub enum MEv { Open(int), Handled, Record(int) }

#[cfg(feature = "metrics")]
pub open spec fn mstep(m: MMon, e: MEv) -> MMon {
    let bad = MMon { ph: m.ph, bad: true };
    if m.bad { m } else { match e {
        MEv::Open(c) => if m.ph is Idle { MMon { ph: MPh::Open(c), bad: false } } else { bad },
        MEv::Handled => match m.ph { MPh::Open(c) => MMon { ph: MPh::Done(c), bad: false }, _ => bad },
        MEv::Record(c) => if m.ph == MPh::Done(c) { MMon { ph: MPh::Idle, bad: false } } else { bad },
    } }
}
#[cfg(not(feature = "metrics"))]
pub open spec fn mstep(m: MMon, e: MEv) -> MMon {
    let bad = MMon { ph: m.ph, bad: true };
    if m.bad { m } else { match e {
        MEv::Handled => m,
        _ => bad,
    } }
}

// ---------------------------------------------------------------- hook scope (task-local)
#[cfg(feature = "deadlock-detection")]
pub open spec fn hook_scope_ok(w: World, id: Identity) -> bool { w.current_actor() == Some(id) }
#[cfg(not(feature = "deadlock-detection"))]
pub open spec fn hook_scope_ok(w: World, id: Identity) -> bool { true }

#[verifier::external_body]
pub fn vx_scope_enter(id: Identity, w: &mut World)
    ensures final(w).current_actor() == Some(id), final(w).log() == old(w).log(),
        final(w).lock_held() == old(w).lock_held(), final(w).poisoned() == old(w).poisoned(),
        final(w).graph() == old(w).graph(), final(w).mmon() == old(w).mmon(),
        final(w).cap_cell() == old(w).cap_cell(), final(w).id_floor() == old(w).id_floor(),
        final(w).chan_floor() == old(w).chan_floor(), final(w).dl_count() == old(w).dl_count(),
        final(w).own_strong() == old(w).own_strong(), final(w).cells() == old(w).cells(),
{ }

#[verifier::external_body]
pub fn vx_scope_exit(w: &mut World)
    ensures final(w).current_actor() == None::<Identity>, final(w).log() == old(w).log(),
        final(w).lock_held() == old(w).lock_held(), final(w).poisoned() == old(w).poisoned(),
        final(w).graph() == old(w).graph(), final(w).mmon() == old(w).mmon(),
        final(w).cap_cell() == old(w).cap_cell(), final(w).id_floor() == old(w).id_floor(),
        final(w).chan_floor() == old(w).chan_floor(), final(w).dl_count() == old(w).dl_count(),
        final(w).own_strong() == old(w).own_strong(), final(w).cells() == old(w).cells(),
{ }

// ---------------------------------------------------------------- tracing (A9: no effect)
#[derive(Clone, Copy)]
pub struct Span;
impl Span { pub fn none() -> Span { Span } }
pub trait Instrument: Sized {
    fn instrument(self, span: Span) -> (r: Self) ensures r == self;
}
impl<T> Instrument for T { fn instrument(self, span: Span) -> (r: Self) { self } }

#[verifier::external_body]
pub fn vx_opaque_string() -> String { String::new() }

// ---------------------------------------------------------------- select! support (rule S)
pub enum Poll<T> { Ready(T), Pending }
pub enum Out1<A> { B0(A) }
pub enum Out2<A, B> { B0(A), B1(B) }
pub enum Out3<A, B, C> { B0(A), B1(B), B2(C) }
pub enum Out4<A, B, C, D> { B0(A), B1(B), B2(C), B3(D) }

pub trait HasObs { spec fn obs(&self) -> Obs; }
pub open spec fn vx_obs<V: HasObs>(v: &V) -> Obs { v.obs() }
impl HasObs for Option<ControlSignal> {
    open spec fn obs(&self) -> Obs { if self is Some { Obs::Signal } else { Obs::Closed } }
}
impl<T: Actor> HasObs for Option<MailboxMessage<T>> {
    open spec fn obs(&self) -> Obs {
        match self {
            Some(MailboxMessage::Envelope { payload, .. }) => Obs::Envelope((**payload).pid()),
            Some(MailboxMessage::StopGracefully(_)) => Obs::StopMark,
            None => Obs::Closed,
        }
    }
}
impl<E> HasObs for core::result::Result<bool, E> {
    open spec fn obs(&self) -> Obs { Obs::Done }
}

/// Ghost bookkeeping: record a select event in the monitor attached to the actor value.
#[verifier::external_body]
pub fn vx_note<T: Actor>(a: &mut T, Ghost(e): Ghost<Ev<T::Error>>)
    ensures final(a).mon() == step(old(a).mon(), e)
{ }

#[verifier::external_body]
pub fn vx_yield_now(w: &mut World)
    ensures same_ambient(*old(w), *final(w))
{ }

/// tokio::task::yield_now().await / tokio::time::sleep(d).await written in framework code: a suspension point like any other -
/// the future can be dropped here by an enclosing timeout (rule T cuts at Await markers), and other tasks run meanwhile.
#[verifier::external_body]
pub fn yield_now(w: &mut World)
    ensures final(w).log() == old(w).log().push(Eff::Await(AwaitKind::Other)), same_ambient(*old(w), *final(w))
{ }
#[verifier::external_body]
pub fn sleep(d: Duration, w: &mut World)
    ensures final(w).log() == old(w).log().push(Eff::Await(AwaitKind::Other)), same_ambient(*old(w), *final(w))
{ }

/// tokio's select! without `biased;` starts polling at a random branch (A3).
#[verifier::external_body]
pub fn vx_random_start(n: usize) -> (r: usize) ensures r < n { 0 }

// ---------------------------------------------------------------- user hooks (arbitrary bodies)
pub trait Actor: Sized + Send + 'static {
    type Args;
    type Error;
    /// safety monitor attached to the actor value
    spec fn mon(&self) -> Mon<Self::Error>;
    spec fn start_spec(args: Self::Args, actor_ref: ActorRef<Self>) -> core::result::Result<Self, Self::Error>;

    fn on_start(args: Self::Args, actor_ref: &ActorRef<Self>, w: &mut World) -> (r: core::result::Result<Self, Self::Error>)
        requires
            hook_scope_ok(*old(w), actor_ref.id), /*L:hook.on_start.inside_actor_scope*/
            !old(w).lock_held(), /*L:hook.called_without_wait_for_lock*/
        ensures
            r == Self::start_spec(args, *actor_ref),
            r is Ok ==> r->Ok_0.mon() == step(mon_init::<Self::Error>(actor_ref.terminate_sender.chan(), actor_ref.sender.chan(), actor_ref.id), Ev::Started),
            hook_frame(*old(w), *final(w), HookTag::Start);

    fn poll_on_run(&mut self, actor_weak: &ActorWeak<Self>, w: &mut World) -> (r: Poll<core::result::Result<bool, Self::Error>>)
        requires
            hook_scope_ok(*old(w), old(self).mon().id), /*L:hook.inside_actor_scope*/
            !old(w).lock_held(), /*L:hook.called_without_wait_for_lock*/
        ensures
            r is Pending ==> final(self).mon() == old(self).mon(),
            r is Ready ==> final(self).mon() == step(old(self).mon(), Ev::RunDone(r->Ready_0)),
            hook_frame(*old(w), *final(w), HookTag::Run);

    fn on_stop(&mut self, actor_weak: &ActorWeak<Self>, killed: bool, w: &mut World) -> (r: core::result::Result<(), Self::Error>)
        requires
            hook_scope_ok(*old(w), old(self).mon().id), /*L:hook.inside_actor_scope*/
            !old(w).lock_held(), /*L:hook.called_without_wait_for_lock*/
        ensures
            final(self).mon() == step(old(self).mon(), Ev::Stopped(killed, match r { Ok(_) => None, Err(e) => Some(e) })),
            hook_frame(*old(w), *final(w), HookTag::Stop);
}

/// what any hook leaves untouched in the world: the task-local scope, the lock (not held on return),
/// the metrics monitor (advanced only by `handle`); its log effects are arbitrary (`hook_log`).
pub open spec fn hook_frame(w0: World, w1: World, tag: HookTag) -> bool {
    &&& w1.current_actor() == w0.current_actor()
    &&& w1.lock_held() == w0.lock_held()
    &&& w1.mmon() == w0.mmon()
    &&& w1.own_strong() == w0.own_strong()
    &&& w1.log() == hook_log(w0.log(), tag)
}

pub trait Message<T>: Actor {
    type Reply;
    fn handle(&mut self, msg: T, actor_ref: &ActorRef<Self>, w: &mut World) -> (r: Self::Reply)
        requires
            hook_scope_ok(*old(w), old(self).mon().id), /*L:hook.inside_actor_scope*/
            !old(w).lock_held(), /*L:hook.called_without_wait_for_lock*/
        ensures
            final(self).mon() == step(old(self).mon(), Ev::Handled(msg_id(msg))),
            final(w).current_actor() == old(w).current_actor(),
            final(w).lock_held() == old(w).lock_held(),
            final(w).mmon() == mstep(old(w).mmon(), MEv::Handled),
            final(w).own_strong() == old(w).own_strong(),
            final(w).log() == hook_log(old(w).log(), HookTag::Handle(msg_id(msg))).push(Eff::Ret(msg_id(msg), val_id(r)));

    fn on_tell_result(_result: &Self::Reply, _actor_ref: &ActorRef<Self>, w: &mut World)
        requires
            !old(w).lock_held(), /*L:hook.called_without_wait_for_lock*/
        ensures
            final(w).current_actor() == old(w).current_actor(),
            final(w).lock_held() == old(w).lock_held(),
            final(w).mmon() == old(w).mmon(),
            final(w).own_strong() == old(w).own_strong(),
            final(w).log() == hook_log(old(w).log(), HookTag::TellResult(val_id(*_result))).push(Eff::TellResultDone(val_id(*_result)));
}

// ---------------------------------------------------------------- Box<dyn Any + Send> (type spelling rule)
#[verifier::external_body]
pub struct AnyBox { _p: () }
impl AnyBox {
    pub uninterp spec fn vid(&self) -> int;
    pub uninterp spec fn tid(&self) -> int;
    #[verifier::external_body]
    pub fn downcast<R>(self) -> (r: core::result::Result<Box<R>, AnyBox>)
        ensures
            r is Ok <==> self.tid() == type_id_of::<R>(),
            r is Ok ==> val_id(*r->Ok_0) == self.vid(),
    { unimplemented!() }
}
/// the unsizing coercion Box<R> -> Box<dyn Any + Send>
pub trait IntoAnyBox { spec fn any_vid(&self) -> int; spec fn any_tid(&self) -> int; }
impl<R> IntoAnyBox for Box<R> {
    open spec fn any_vid(&self) -> int { val_id(**self) }
    open spec fn any_tid(&self) -> int { type_id_of::<R>() }
}

#[verifier::external_body]
pub fn type_name<M>() -> (r: &'static str) ensures r@ == type_name_spec::<M>() { "" }
pub uninterp spec fn type_name_spec<M>() -> Seq<char>;

// ---------------------------------------------------------------- tokio::sync::mpsc (A1, A4, A5)
/// channel invariant: what every sender guarantees about a message put into channel `chan`
pub trait ChanMsg { spec fn view(&self) -> MsgView; spec fn fits(&self, chan: int) -> bool; }
impl ChanMsg for ControlSignal {
    open spec fn view(&self) -> MsgView { MsgView::Signal }
    open spec fn fits(&self, chan: int) -> bool { true }
}
impl<T: Actor> ChanMsg for MailboxMessage<T> {
    open spec fn view(&self) -> MsgView {
        match self {
            MailboxMessage::Envelope { payload, reply_channel, actor_ref } => MsgView::Envelope {
                pid: (**payload).pid(),
                req: match reply_channel { Some(ch) => Some(ch.req()), None => None },
                holds: actor_ref.mbx_chan() },
            MailboxMessage::StopGracefully(r) => MsgView::StopMark { holds: r.mbx_chan() },
        }
    }
    /// an envelope / stop marker keeps *this* mailbox's actor alive: it embeds a strong reference to it
    open spec fn fits(&self, chan: int) -> bool {
        match self {
            MailboxMessage::Envelope { actor_ref, .. } => actor_ref.mbx_chan() == chan,
            MailboxMessage::StopGracefully(r) => r.mbx_chan() == chan,
        }
    }
}

pub mod mpsc {
    use super::*;

    #[verifier::external_body]
    #[verifier::accept_recursive_types(T)]
    pub struct Sender<T> { _p: PhantomData<fn() -> T> }
    #[verifier::external_body]
    #[verifier::accept_recursive_types(T)]
    pub struct WeakSender<T> { _p: PhantomData<fn() -> T> }
    #[verifier::external_body]
    #[verifier::accept_recursive_types(T)]
    pub struct Receiver<T> { _p: PhantomData<fn() -> T> }

    pub struct SendError<T>(pub T);
    pub mod error {
        pub enum TrySendError<T> { Full(T), Closed(T) }
        pub enum TryRecvError { Empty, Disconnected }
    }

    /// A1: bounded channel of capacity `buffer` (> 0, panics otherwise inside tokio)
    #[verifier::external_body]
    pub fn channel<T>(buffer: usize, w: &mut World) -> (r: (Sender<T>, Receiver<T>))
        requires
            buffer > 0, /*L:mpsc.channel.capacity_positive*/
        ensures
            r.0.chan() == r.1.chan(),
            final(w).log() == old(w).log(),   // creating a channel is not an observable effect; its bound is a ghost attribute
            r.0.cap() == buffer as nat,
            r.0.chan() >= old(w).chan_floor(),
            final(w).chan_floor() > r.0.chan(),
            same_ambient_but_chan(*old(w), *final(w)),
    { unimplemented!() }

    impl<T> Sender<T> {
        pub uninterp spec fn chan(&self) -> int;
        /// the bound the channel was created with (A1: occupancy never exceeds it)
        pub uninterp spec fn cap(&self) -> nat;
    }
    impl<T> WeakSender<T> {
        pub uninterp spec fn chan(&self) -> int;
    }
    impl<T> Receiver<T> {
        pub uninterp spec fn chan(&self) -> int;
        pub open spec fn src(&self) -> Src { Src::Chan(self.chan()) }
    }

    impl<T: ChanMsg> Sender<T> {
        /// waiting send: suspends (Await) until a slot is free; Ok iff enqueued; Err iff receiver closed/dropped
        #[verifier::external_body]
        pub fn send(&self, value: T, w: &mut World) -> (r: core::result::Result<(), SendError<T>>)
            requires
                value.fits(self.chan()), /*L:mpsc.send.message_keeps_this_mailbox_alive*/
            ensures
                r is Ok ==> final(w).log() == old(w).log().push(Eff::Await(AwaitKind::Send)).push(Eff::Enq(self.chan(), value.view())),
                r is Err ==> final(w).log() == old(w).log().push(Eff::Await(AwaitKind::Send)).push(Eff::Rejected(self.chan(), value.view())) && r->Err_0.0 == value,
                same_ambient(*old(w), *final(w)),
        { unimplemented!() }

        /// same channel semantics, blocking the thread instead of suspending the task
        #[verifier::external_body]
        pub fn blocking_send(&self, value: T, w: &mut World) -> (r: core::result::Result<(), SendError<T>>)
            requires
                value.fits(self.chan()), /*L:mpsc.send.message_keeps_this_mailbox_alive*/
            ensures
                r is Ok ==> final(w).log() == old(w).log().push(Eff::Await(AwaitKind::Send)).push(Eff::Enq(self.chan(), value.view())),
                r is Err ==> final(w).log() == old(w).log().push(Eff::Await(AwaitKind::Send)).push(Eff::Rejected(self.chan(), value.view())) && r->Err_0.0 == value,
                same_ambient(*old(w), *final(w)),
        { unimplemented!() }

        /// never suspends
        #[verifier::external_body]
        pub fn try_send(&self, value: T, w: &mut World) -> (r: core::result::Result<(), error::TrySendError<T>>)
            requires
                value.fits(self.chan()), /*L:mpsc.send.message_keeps_this_mailbox_alive*/
            ensures
                r is Ok ==> final(w).log() == old(w).log().push(Eff::Enq(self.chan(), value.view())),
                (r matches Err(error::TrySendError::Full(v))) ==> final(w).log() == old(w).log().push(Eff::TryFull(self.chan(), value.view())),
                (r matches Err(error::TrySendError::Closed(v))) ==> final(w).log() == old(w).log().push(Eff::Rejected(self.chan(), value.view())),
                same_ambient(*old(w), *final(w)),
        { unimplemented!() }
    }

    impl<T> Sender<T> {
        #[verifier::external_body]
        pub fn is_closed(&self, w: &mut World) -> (r: bool)
            ensures final(w).log() == old(w).log().push(Eff::ReadClosed(self.chan(), r)), same_ambient(*old(w), *final(w)),
        { unimplemented!() }

        /// A4: a WeakSender does not count as a sender
        #[verifier::external_body]
        pub fn downgrade(&self) -> (r: WeakSender<T>) ensures r.chan() == self.chan() { unimplemented!() }
        #[verifier::external_body]
        pub fn capacity(&self) -> usize { unimplemented!() }
        #[verifier::external_body]
        pub fn max_capacity(&self) -> (r: usize) ensures r as nat == self.cap() { unimplemented!() }
    }
    impl<T> Clone for Sender<T> {
        #[verifier::external_body]
        fn clone(&self) -> (r: Self) ensures r.chan() == self.chan(), r.cap() == self.cap() { unimplemented!() }
    }
    impl<T> WeakSender<T> {
        /// A4: Some iff a strong sender still exists at this moment
        #[verifier::external_body]
        pub fn upgrade(&self, w: &mut World) -> (r: Option<Sender<T>>)
            ensures
                final(w).log() == old(w).log().push(Eff::Upgrade(self.chan(), r is Some)),
                r is Some ==> r->Some_0.chan() == self.chan(),
                same_ambient(*old(w), *final(w)),
        { unimplemented!() }
        #[verifier::external_body]
        pub fn strong_count(&self, w: &mut World) -> (r: usize)
            ensures final(w).log() == old(w).log().push(Eff::ReadStrong(self.chan(), r > 0)), same_ambient(*old(w), *final(w)),
        { unimplemented!() }
    }
    impl<T> Clone for WeakSender<T> {
        #[verifier::external_body]
        fn clone(&self) -> (r: Self) ensures r.chan() == self.chan() { unimplemented!() }
    }

    impl<T: ChanMsg> Receiver<T> {
        /// one poll of `recv()`: Ready(Some(m)) only for the head of the queue (and m satisfies the channel
        /// invariant its sender established), Ready(None) only if closed-and-drained or no sender is left
        #[verifier::external_body]
        pub fn poll_recv(&mut self, w: &mut World) -> (r: Poll<Option<T>>)
            ensures
                final(self).chan() == old(self).chan(),
                r matches Poll::Ready(Some(m)) ==> m.fits(old(self).chan()),
                same_ambient(*old(w), *final(w)),
        { unimplemented!() }

        #[verifier::external_body]
        pub fn recv(&mut self, w: &mut World) -> (r: Option<T>)
            ensures
                final(self).chan() == old(self).chan(),
                r matches Some(m) ==> m.fits(old(self).chan()),
                same_ambient(*old(w), *final(w)),
        { unimplemented!() }

        #[verifier::external_body]
        pub fn try_recv(&mut self, w: &mut World) -> (r: core::result::Result<T, error::TryRecvError>)
            ensures
                final(self).chan() == old(self).chan(),
                r matches Ok(m) ==> m.fits(old(self).chan()),
                same_ambient(*old(w), *final(w)),
        { unimplemented!() }
    }
    impl<T> Receiver<T> {
        /// racy reads of the queue state: any value (another task may change it at once)
        #[verifier::external_body]
        pub fn is_empty(&self) -> bool { unimplemented!() }
        #[verifier::external_body]
        pub fn len(&self) -> usize { unimplemented!() }
        #[verifier::external_body]
        pub fn capacity(&self) -> usize { unimplemented!() }
        #[verifier::external_body]
        pub fn max_capacity(&self) -> usize { unimplemented!() }
        /// A5: after close, pending and later sends fail; queued messages can still be drained
        #[verifier::external_body]
        pub fn close(&mut self, w: &mut World)
            ensures
                final(self).chan() == old(self).chan(),
                final(w).log() == old(w).log().push(Eff::Closed(old(self).chan())),
                same_ambient(*old(w), *final(w)),
        { }
    }
}

pub open spec fn same_ambient_but_chan(w0: World, w1: World) -> bool {
    &&& w1.current_actor() == w0.current_actor()
    &&& w1.lock_held() == w0.lock_held()
    &&& w1.poisoned() == w0.poisoned()
    &&& w1.graph() == w0.graph()
    &&& w1.mmon() == w0.mmon()
    &&& w1.cap_cell() == w0.cap_cell()
    &&& w1.id_floor() == w0.id_floor()
    &&& w1.dl_count() == w0.dl_count()
    &&& w1.own_strong() == w0.own_strong()
    &&& w1.cells() == w0.cells()
}

// ---------------------------------------------------------------- tokio::sync::oneshot (A5)
pub mod oneshot {
    use super::*;
    #[verifier::external_body]
    #[verifier::reject_recursive_types(T)]
    pub struct Sender<T> { _p: PhantomData<fn() -> T> }
    #[verifier::external_body]
    #[verifier::reject_recursive_types(T)]
    pub struct Receiver<T> { _p: PhantomData<fn() -> T> }
    pub struct RecvError;

    #[verifier::external_body]
    pub fn channel<T>(w: &mut World) -> (r: (Sender<T>, Receiver<T>))
        ensures
            r.0.req() == r.1.req(),
            final(w).log() == old(w).log(),   // creating the reply channel is not an observable effect
            same_ambient(*old(w), *final(w)),
    { unimplemented!() }

    impl<T> Sender<T> { pub uninterp spec fn req(&self) -> int; }
    impl<T> Receiver<T> { pub uninterp spec fn req(&self) -> int; }

    impl Sender<AnyBox> {
        /// consumes the sender: at most one value per request
        #[verifier::external_body]
        pub fn send<V: IntoAnyBox>(self, value: V, w: &mut World) -> (r: core::result::Result<(), AnyBox>)
            ensures
                r is Ok ==> final(w).log() == old(w).log().push(Eff::ReplySent(self.req(), value.any_vid())),
                r is Err ==> final(w).log() == old(w).log().push(Eff::ReplyLost(self.req(), value.any_vid())),
                same_ambient(*old(w), *final(w)),
        { unimplemented!() }
    }
    impl Receiver<AnyBox> {
        /// `rx.await`: Ok(v) exactly when v was sent on this request; Err when the sender was dropped unsent
        #[verifier::external_body]
        pub fn vx_await(self, w: &mut World) -> (r: core::result::Result<AnyBox, RecvError>)
            ensures
                r is Ok ==> final(w).log() == old(w).log().push(Eff::Await(AwaitKind::Reply)).push(Eff::ReplyRecv(self.req(), r->Ok_0.vid())),
                r is Err ==> final(w).log() == old(w).log().push(Eff::Await(AwaitKind::Reply)).push(Eff::ReplyClosed(self.req())),
                same_ambient(*old(w), *final(w)),
        { unimplemented!() }
        #[verifier::external_body]
        pub fn blocking_recv(self, w: &mut World) -> (r: core::result::Result<AnyBox, RecvError>)
            ensures
                r is Ok ==> final(w).log() == old(w).log().push(Eff::Await(AwaitKind::Reply)).push(Eff::ReplyRecv(self.req(), r->Ok_0.vid())),
                r is Err ==> final(w).log() == old(w).log().push(Eff::Await(AwaitKind::Reply)).push(Eff::ReplyClosed(self.req())),
                same_ambient(*old(w), *final(w)),
        { unimplemented!() }
    }
}

// ---------------------------------------------------------------- rule H: helper thread + std one-shot hand-off (A14)
/// a fresh OS thread: no task-local actor identity (tokio task-locals are per task; a new thread runs no task)
#[verifier::external_body]
pub struct HelperThread { _p: () }
impl HelperThread { pub uninterp spec fn saved_actor(&self) -> Option<Identity>; pub uninterp spec fn saved_lock(&self) -> bool; }
#[verifier::external_body]
pub fn vx_thread_enter(w: &mut World) -> (t: HelperThread)
    ensures t.saved_actor() == old(w).current_actor(), t.saved_lock() == old(w).lock_held(),
        final(w).current_actor() == None::<Identity>, final(w).log() == old(w).log(),
        !final(w).lock_held(), final(w).poisoned() == old(w).poisoned(),
        final(w).graph() == old(w).graph(), final(w).mmon() == old(w).mmon(),
        final(w).cap_cell() == old(w).cap_cell(), final(w).id_floor() == old(w).id_floor(),
        final(w).chan_floor() == old(w).chan_floor(), final(w).dl_count() == old(w).dl_count(),
        final(w).own_strong() == old(w).own_strong(), final(w).cells() == old(w).cells(),
{ unimplemented!() }
/// back on the calling thread (which was blocked in `recv` all the while)
#[verifier::external_body]
pub fn vx_thread_exit(t: HelperThread, w: &mut World)
    requires !old(w).lock_held(), /*L:helper_thread.ends_without_the_wait_for_lock*/
    ensures final(w).current_actor() == t.saved_actor(), final(w).log() == old(w).log(),
        final(w).lock_held() == t.saved_lock(), final(w).poisoned() == old(w).poisoned(),
        final(w).graph() == old(w).graph(), final(w).mmon() == old(w).mmon(),
        final(w).cap_cell() == old(w).cap_cell(), final(w).id_floor() == old(w).id_floor(),
        final(w).chan_floor() == old(w).chan_floor(), final(w).dl_count() == old(w).dl_count(),
        final(w).own_strong() == old(w).own_strong(), final(w).cells() == old(w).cells(),
{ }

/// std::sync::mpsc used as a one-shot hand-off: `send` consumes the sender in the shim (the real one takes &self; the text
/// `tx.send(v)` is the same), so at most one value travels per channel and `std_slot` - what the receiver will get - is
/// well defined.  `recv` returns that value; if nothing was sent on the path taken (the sender was dropped) it fails.
#[verifier::external_body]
#[verifier::reject_recursive_types(V)]
pub struct StdSender<V> { _p: PhantomData<fn() -> V> }
#[verifier::external_body]
#[verifier::reject_recursive_types(V)]
pub struct StdReceiver<V> { _p: PhantomData<fn() -> V> }
pub struct StdRecvError;
pub struct StdSendError;
pub uninterp spec fn std_slot<V>(ch: int) -> Option<V>;
impl<V> StdSender<V> {
    pub uninterp spec fn chan(&self) -> int;
    #[verifier::external_body]
    pub fn send(self, value: V, w: &mut World) -> (r: core::result::Result<(), StdSendError>)
        ensures
            std_slot::<V>(self.chan()) == Some(value),
            final(w).log() == old(w).log(),
            same_ambient(*old(w), *final(w)),
    { unimplemented!() }
}
impl<V> StdReceiver<V> {
    pub uninterp spec fn chan(&self) -> int;
    #[verifier::external_body]
    pub fn recv(&self, w: &mut World) -> (r: core::result::Result<V, StdRecvError>)
        ensures
            std_slot::<V>(self.chan()) matches Some(v) ==> r == Ok::<V, StdRecvError>(v),
            std_slot::<V>(self.chan()) is None ==> r is Err,
            final(w).log() == old(w).log(),
            same_ambient(*old(w), *final(w)),
    { unimplemented!() }
}
#[verifier::external_body]
pub fn vx_std_channel<V>() -> (r: (StdSender<V>, StdReceiver<V>))
    ensures r.0.chan() == r.1.chan(),
{ unimplemented!() }

/// tokio::runtime::{Builder, Runtime}: a private current-thread runtime.  Under rule R4 a future is its value, so `block_on`
/// is the identity; building may fail (environment fault, logged as such).
pub mod runtime {
    use super::*;
    #[verifier::external_body]
    pub struct Builder { _p: () }
    #[verifier::external_body]
    pub struct Runtime { _p: () }
    #[verifier::external_body]
    pub struct IoError { _p: () }
    impl Builder {
        #[verifier::external_body]
        pub fn new_current_thread() -> Builder { unimplemented!() }
        #[verifier::external_body]
        pub fn new_multi_thread() -> Builder { unimplemented!() }
        #[verifier::external_body]
        pub fn enable_time(self) -> Builder { unimplemented!() }
        #[verifier::external_body]
        pub fn enable_all(self) -> Builder { unimplemented!() }
        #[verifier::external_body]
        pub fn build(self, w: &mut World) -> (r: core::result::Result<Runtime, IoError>)
            ensures
                r is Ok ==> final(w).log() == old(w).log(),
                r is Err ==> final(w).log() == old(w).log().push(Eff::Opaque(OpaqueTag::RtBuildFailed)),
                same_ambient(*old(w), *final(w)),
        { unimplemented!() }
    }
    impl Runtime {
        #[verifier::external_body]
        pub fn block_on<R>(&self, v: R) -> (r: R)
            ensures r == v,
        { unimplemented!() }
    }
}

// ---------------------------------------------------------------- tokio::time::timeout (rule T, A2)
pub struct Elapsed;
/// the timer's own mark in the log.  Attribution variant `vx-notimer` (DESIGN 8.11) erases the timer alphabet, here and in the
/// vocabulary alike, so that the same relations state everything about a call except what is specific to its deadline.
#[cfg(not(feature = "vx-notimer"))]
pub open spec fn tm_log(l: Seq<Eff>, d: Duration) -> Seq<Eff> { l.push(Eff::TimeoutArmed(d)) }
#[cfg(feature = "vx-notimer")]
pub open spec fn tm_log(l: Seq<Eff>, d: Duration) -> Seq<Eff> { l }
/// `l1` ends with the timer mark of deadline d / `l1` without it
#[cfg(not(feature = "vx-notimer"))]
pub open spec fn tm_last_ok(l1: Seq<Eff>, d: Duration) -> bool { l1.len() > 0 && l1.last() == Eff::TimeoutArmed(d) }
#[cfg(feature = "vx-notimer")]
pub open spec fn tm_last_ok(l1: Seq<Eff>, d: Duration) -> bool { true }
#[cfg(not(feature = "vx-notimer"))]
pub open spec fn tm_strip(l1: Seq<Eff>) -> Seq<Eff> { l1.drop_last() }
#[cfg(feature = "vx-notimer")]
pub open spec fn tm_strip(l1: Seq<Eff>) -> Seq<Eff> { l1 }
/// the Timeout error names the deadline and the operation it was given
#[cfg(not(feature = "vx-notimer"))]
pub open spec fn tm_fields_ok(timeout: Duration, d: Duration, operation: Seq<char>, op: Seq<char>) -> bool { timeout == d && operation == op }
#[cfg(feature = "vx-notimer")]
pub open spec fn tm_fields_ok(timeout: Duration, d: Duration, operation: Seq<char>, op: Seq<char>) -> bool { true }

/// Either the inner operation completed (its log stands) or the deadline passed while it was
/// suspended at one of its Await markers: the log is cut there (the future was dropped; the
/// suspended primitive is cancel-safe) — ambient state is that of the cut point for lock/graph
/// purposes only through rule D, which is applied separately.
#[verifier::external_body]
pub fn vx_timeout_resolve<R>(d: Duration, inner: R, Ghost(l0): Ghost<Seq<Eff>>, w: &mut World) -> (r: core::result::Result<R, Elapsed>)
    requires
        l0.len() <= old(w).log().len(), /*L:timeout.inner_log_extends*/
    ensures
        (r == Ok::<R, Elapsed>(inner) && final(w).log() == tm_log(old(w).log(), d))
        || (r is Err && exists|k: int| l0.len() <= k < old(w).log().len() && (#[trigger] old(w).log()[k] is Await)
                && final(w).log() == tm_log(old(w).log().take(k), d)),
        same_ambient(*old(w), *final(w)),
{ unimplemented!() }

// ---------------------------------------------------------------- tokio::task
#[verifier::external_body]
#[verifier::reject_recursive_types(R)]
pub struct JoinHandle<R> { _p: PhantomData<R> }
#[verifier::external_body]
pub struct JoinError { _p: () }
impl<R> JoinHandle<R> {
    pub uninterp spec fn task(&self) -> int;
    #[verifier::external_body]
    pub fn vx_await(self, w: &mut World) -> (r: core::result::Result<R, JoinError>)
        ensures
            final(w).log() == old(w).log().push(Eff::Await(AwaitKind::Join)).push(Eff::Joined(self.task(), r is Ok)),
            r is Ok ==> val_id(r->Ok_0) == join_output(self.task()),
            r is Err ==> join_error_id(r->Err_0) == self.task(),
            same_ambient(*old(w), *final(w)),
    { unimplemented!() }
}
pub uninterp spec fn join_output(task: int) -> int;
pub uninterp spec fn join_error_id(e: JoinError) -> int;

// ---------------------------------------------------------------- panics
/// A panic site.  It may be reached only when the wait-for lock is not held (C12): unwinding with the
/// guard alive would poison the mutex.
#[verifier::external_body]
pub fn vx_panic_site(w: &mut World) -> !
    requires
        !old(w).lock_held(), /*L:panic_site.wait_for_lock_not_held*/
{ panic!() }

// ---------------------------------------------------------------- std::mem::drop on tracked handles
pub trait VxDrop: Sized {
    spec fn drop_eff(&self, w0: World, w1: World) -> bool;
}
/// Option's drop glue: drops the payload if there is one
impl<X: VxDrop> VxDrop for Option<X> {
    open spec fn drop_eff(&self, w0: World, w1: World) -> bool {
        match self { Some(x) => x.drop_eff(w0, w1), None => w1 == w0 }
    }
}
#[verifier::external_body]
pub fn drop<X: VxDrop>(x: X, w: &mut World)
    ensures x.drop_eff(*old(w), *final(w)),
{ }

// ---------------------------------------------------------------- std::sync::atomic (A10)
pub enum Ordering { Relaxed, Release, Acquire, AcqRel, SeqCst }

#[verifier::external_body]
pub struct AtomicU64 { _p: () }
impl AtomicU64 {
    pub uninterp spec fn cell(&self) -> int;
    /// atomic RMW: returns the previous value; every later fetch_add on this cell returns a value >= r + val
    /// (no wrap-around: fewer than 2^64 increments, stated assumption)
    #[verifier::external_body]
    pub fn fetch_add(&self, val: u64, order: Ordering, w: &mut World) -> (r: u64)
        ensures
            // the id allocator's increments are not an observable effect (freshness is stated through id_floor)
            final(w).log() == (if fetch_add_silent(self.cell()) { old(w).log() } else { old(w).log().push(Eff::FetchAdd(self.cell(), val)) }),
            self.cell() == cell_ACTOR_IDS() ==> (r as int >= old(w).id_floor() && final(w).id_floor() == r as int + val as int),
            self.cell() != cell_ACTOR_IDS() ==> final(w).id_floor() == old(w).id_floor(),
            self.cell() == cell_DEAD_LETTER_COUNT() ==> final(w).dl_count() == old(w).dl_count() + val as nat,
            self.cell() != cell_DEAD_LETTER_COUNT() ==> final(w).dl_count() == old(w).dl_count(),
            final(w).current_actor() == old(w).current_actor(), final(w).lock_held() == old(w).lock_held(),
            final(w).poisoned() == old(w).poisoned(), final(w).graph() == old(w).graph(), final(w).mmon() == old(w).mmon(),
            final(w).cap_cell() == old(w).cap_cell(), final(w).chan_floor() == old(w).chan_floor(),
            final(w).own_strong() == old(w).own_strong(),
            // single-writer cells: exact value semantics (wrapping add, previous value returned)
            (self.cell() != cell_ACTOR_IDS() && self.cell() != cell_DEAD_LETTER_COUNT() && old(w).cells().contains_key(self.cell())) ==>
                (r == old(w).cells()[self.cell()]
                 && final(w).cells() == old(w).cells().insert(self.cell(), ((r as int + val as int) % 0x1_0000_0000_0000_0000) as u64)),
            (self.cell() == cell_ACTOR_IDS() || self.cell() == cell_DEAD_LETTER_COUNT()) ==> final(w).cells() == old(w).cells(),
    { unimplemented!() }

    /// a new atomic is a fresh cell holding v
    #[verifier::external_body]
    pub fn new(v: u64, w: &mut World) -> (r: AtomicU64)
        ensures
            !old(w).cells().contains_key(r.cell()), r.cell() != cell_ACTOR_IDS(), r.cell() != cell_DEAD_LETTER_COUNT(),
            final(w).cells() == old(w).cells().insert(r.cell(), v),
            final(w).log() == old(w).log(), same_ambient_but_cells(*old(w), *final(w)),
    { unimplemented!() }

    #[verifier::external_body]
    pub fn load(&self, order: Ordering, w: &mut World) -> (r: u64)
        ensures old(w).cells().contains_key(self.cell()) ==> r == old(w).cells()[self.cell()], *final(w) == *old(w),
    { unimplemented!() }

    #[verifier::external_body]
    pub fn store(&self, v: u64, order: Ordering, w: &mut World)
        ensures final(w).cells() == old(w).cells().insert(self.cell(), v), final(w).log() == old(w).log(), same_ambient_but_cells(*old(w), *final(w)),
    { unimplemented!() }

    #[verifier::external_body]
    pub fn fetch_max(&self, v: u64, order: Ordering, w: &mut World) -> (r: u64)
        ensures
            old(w).cells().contains_key(self.cell()) ==> (r == old(w).cells()[self.cell()]
                && final(w).cells() == old(w).cells().insert(self.cell(), if r >= v { r } else { v })),
            final(w).log() == old(w).log(), same_ambient_but_cells(*old(w), *final(w)),
    { unimplemented!() }

    /// rule R8-F: `fetch_update(o1, o2, |p| B)` is an atomic read-modify-write (a CAS loop): the closure is unfolded between
    /// vx_rmw_load and vx_rmw_commit, which together are one atomic step on this cell (A10)
    #[verifier::external_body]
    pub fn vx_rmw_load(&self, w: &mut World) -> (r: u64)
        ensures old(w).cells().contains_key(self.cell()) ==> r == old(w).cells()[self.cell()], *final(w) == *old(w),
    { unimplemented!() }
    #[verifier::external_body]
    pub fn vx_rmw_commit(&self, prev: u64, upd: Option<u64>, w: &mut World) -> (r: core::result::Result<u64, u64>)
        ensures
            upd matches Some(v) ==> r == Ok::<u64, u64>(prev) && final(w).cells() == old(w).cells().insert(self.cell(), v),
            upd is None ==> r == Err::<u64, u64>(prev) && final(w).cells() == old(w).cells(),
            final(w).log() == old(w).log(), same_ambient_but_cells(*old(w), *final(w)),
    { unimplemented!() }
}
pub open spec fn same_ambient_but_cells(w0: World, w1: World) -> bool {
    &&& w1.current_actor() == w0.current_actor()
    &&& w1.lock_held() == w0.lock_held()
    &&& w1.poisoned() == w0.poisoned()
    &&& w1.graph() == w0.graph()
    &&& w1.mmon() == w0.mmon()
    &&& w1.cap_cell() == w0.cap_cell()
    &&& w1.id_floor() == w0.id_floor()
    &&& w1.chan_floor() == w0.chan_floor()
    &&& w1.dl_count() == w0.dl_count()
    &&& w1.own_strong() == w0.own_strong()
}
pub open spec fn cell_ACTOR_IDS() -> int { 1 }
#[cfg(not(feature = "vx-nodl"))]
pub open spec fn fetch_add_silent(cell: int) -> bool { cell == cell_ACTOR_IDS() }
/// attribution variant `vx-nodl`: the dead-letter counter's increments are erased with the rest of the dead-letter alphabet
#[cfg(feature = "vx-nodl")]
pub open spec fn fetch_add_silent(cell: int) -> bool { cell == cell_ACTOR_IDS() || cell == cell_DEAD_LETTER_COUNT() }
pub open spec fn cell_DEAD_LETTER_COUNT() -> int { 2 }
pub open spec fn cell_DEFAULT_CAPACITY() -> int { 3 }

// ---------------------------------------------------------------- std::sync::OnceLock<usize>
#[verifier::external_body]
#[verifier::reject_recursive_types(T)]
pub struct OnceLock<T> { _p: PhantomData<T> }
impl OnceLock<usize> {
    pub uninterp spec fn cell(&self) -> int;
    /// set-once: Ok iff the cell was empty; the stored value never changes afterwards
    #[verifier::external_body]
    pub fn set(&self, value: usize, w: &mut World) -> (r: core::result::Result<(), usize>)
        requires
            value > 0, /*L:capacity_cell.only_nonzero_values*/
        ensures
            final(w).log() == old(w).log().push(Eff::CellSet(self.cell(), value, r is Ok)),
            r is Ok ==> final(w).cap_cell() == Some(value),
            r is Err ==> final(w).cap_cell() == old(w).cap_cell() && old(w).cap_cell() is Some,
            r is Ok ==> old(w).cap_cell() is None,
            final(w).current_actor() == old(w).current_actor(), final(w).lock_held() == old(w).lock_held(),
            final(w).poisoned() == old(w).poisoned(), final(w).graph() == old(w).graph(), final(w).mmon() == old(w).mmon(),
            final(w).id_floor() == old(w).id_floor(), final(w).chan_floor() == old(w).chan_floor(),
            final(w).dl_count() == old(w).dl_count(), final(w).own_strong() == old(w).own_strong(), final(w).cells() == old(w).cells(),
    { unimplemented!() }
    /// get_or_init: a READ that WRITES when the cell is empty (the value of `f`), after which `set` can never succeed again
    #[verifier::external_body]
    pub fn get_or_init<F: FnOnce() -> usize>(&self, f: F, w: &mut World) -> (r: &usize)
        requires
            f.requires(()),
        ensures
            old(w).cap_cell() matches Some(v) ==> (*r == v && final(w).cap_cell() == old(w).cap_cell()
                && final(w).log() == old(w).log().push(Eff::CellGet(self.cell(), Some(v)))),
            old(w).cap_cell() is None ==> (f.ensures((), *r) && final(w).cap_cell() == Some(*r)
                && final(w).log() == old(w).log().push(Eff::CellGet(self.cell(), None::<usize>)).push(Eff::CellSet(self.cell(), *r, true))),
            final(w).current_actor() == old(w).current_actor(), final(w).lock_held() == old(w).lock_held(),
            final(w).poisoned() == old(w).poisoned(), final(w).graph() == old(w).graph(), final(w).mmon() == old(w).mmon(),
            final(w).id_floor() == old(w).id_floor(), final(w).chan_floor() == old(w).chan_floor(),
            final(w).dl_count() == old(w).dl_count(), final(w).own_strong() == old(w).own_strong(), final(w).cells() == old(w).cells(),
    { unimplemented!() }
    #[verifier::external_body]
    pub fn get(&self, w: &mut World) -> (r: Option<&usize>)
        ensures
            final(w).log() == old(w).log().push(Eff::CellGet(self.cell(), match r { Some(v) => Some(*v), None => None })),
            (match r { Some(v) => Some(*v), None => None::<usize> }) == old(w).cap_cell(),
            r matches Some(v) ==> *v > 0,   // rely: every writer of the cell stores a non-zero value (checked at each `set`)
            same_ambient(*old(w), *final(w)),
    { unimplemented!() }
}

// ---------------------------------------------------------------- clocks (A11)
#[verifier::external_body]
#[derive(Clone, Copy)]
pub struct Instant { _p: () }
impl Instant {
    #[verifier::external_body]
    pub fn now() -> Instant { unimplemented!() }
    #[verifier::external_body]
    pub fn elapsed(&self) -> Duration { unimplemented!() }
}

// ---------------------------------------------------------------- std library specs missing from vstd
pub assume_specification<'a, T: Copy>[ Option::<&'a T>::copied ](o: Option<&'a T>) -> (r: Option<T>)
    ensures r == (match o { Some(v) => Some(*v), None => None::<T> });

// ---------------------------------------------------------------- deadlock detection: task-local, mutex, graph
#[cfg(feature = "deadlock-detection")]
pub struct AccessError;

/// `CURRENT_ACTOR.try_with(|id| *id)`: the task-local value of the running task, Err outside any scope
#[cfg(feature = "deadlock-detection")]
#[verifier::external_body]
pub fn vx_task_local_get(w: &mut World) -> (r: core::result::Result<Identity, AccessError>)
    ensures
        r is Ok <==> old(w).current_actor() is Some,
        r is Ok ==> Some(r->Ok_0) == old(w).current_actor(),
        final(w).log() == old(w).log(),
        same_ambient(*old(w), *final(w)),
{ unimplemented!() }

#[cfg(feature = "deadlock-detection")]
#[verifier::external_body]
#[verifier::reject_recursive_types(T)]
pub struct Mutex<T> { _p: PhantomData<fn() -> T> }
#[cfg(feature = "deadlock-detection")]
pub struct PoisonError;

/// The guard is spelled Box<HashMap<..>> (type spelling rule): it derefs to the map like MutexGuard does; releasing it is
/// the explicit `drop(guard, w)` (written in the source or made explicit by rule D).
#[cfg(feature = "deadlock-detection")]
impl Mutex<HashMap<u64, Identity>> {
    /// std::sync::Mutex::lock: Err iff poisoned.  The graph seen under the lock is whatever other tasks left there.
    #[verifier::external_body]
    pub fn lock(&self, w: &mut World) -> (r: core::result::Result<Box<HashMap<u64, Identity>>, PoisonError>)
        requires
            !old(w).lock_held(), /*L:mutex.no_reentrant_lock*/
        ensures
            r is Ok <==> !old(w).poisoned(),
            r is Ok ==> final(w).lock_held() && r->Ok_0@ == final(w).graph()
                        && final(w).log() == dd_lock_log(old(w).log(), final(w).graph()),
            r is Err ==> !final(w).lock_held() && final(w).log() == old(w).log() && final(w).graph() == old(w).graph(),
            final(w).current_actor() == old(w).current_actor(), final(w).poisoned() == old(w).poisoned(),
            final(w).mmon() == old(w).mmon(), final(w).cap_cell() == old(w).cap_cell(),
            final(w).id_floor() == old(w).id_floor(), final(w).chan_floor() == old(w).chan_floor(),
            final(w).dl_count() == old(w).dl_count(), final(w).own_strong() == old(w).own_strong(), final(w).cells() == old(w).cells(),
    { unimplemented!() }
}

/// the lock's marks in the log.  Attribution variant `vx-nodd` (DESIGN 8.11) erases the deadlock-detection alphabet, here and in
/// the vocabulary alike, so that the same relations state what a call does apart from its wait-for bookkeeping.
#[cfg(all(feature = "deadlock-detection", not(feature = "vx-nodd")))]
pub open spec fn dd_lock_log(l: Seq<Eff>, g: Map<u64, Identity>) -> Seq<Eff> { l.push(Eff::Lock(g)) }
#[cfg(all(feature = "deadlock-detection", feature = "vx-nodd"))]
pub open spec fn dd_lock_log(l: Seq<Eff>, g: Map<u64, Identity>) -> Seq<Eff> { l }
#[cfg(all(feature = "deadlock-detection", not(feature = "vx-nodd")))]
pub open spec fn dd_unlock_log(l: Seq<Eff>, g: Map<u64, Identity>) -> Seq<Eff> { l.push(Eff::Unlock(g)) }
#[cfg(all(feature = "deadlock-detection", feature = "vx-nodd"))]
pub open spec fn dd_unlock_log(l: Seq<Eff>, g: Map<u64, Identity>) -> Seq<Eff> { l }

/// the global wait-for mutex (`WAIT_FOR.get_or_init(..)`): one per process
#[cfg(feature = "deadlock-detection")]
#[verifier::external_body]
pub fn wait_for_graph() -> (r: &'static Mutex<HashMap<u64, Identity>>) { unimplemented!() }

/// releasing the guard publishes the (possibly modified) map and unlocks
#[cfg(feature = "deadlock-detection")]
impl VxDrop for Box<HashMap<u64, Identity>> {
    open spec fn drop_eff(&self, w0: World, w1: World) -> bool {
        &&& !w1.lock_held()
        &&& w1.graph() == (**self)@
        &&& w1.log() == dd_unlock_log(w0.log(), (**self)@)
        &&& w1.current_actor() == w0.current_actor()
        &&& w1.poisoned() == w0.poisoned()
        &&& w1.mmon() == w0.mmon()
        &&& w1.cap_cell() == w0.cap_cell()
        &&& w1.id_floor() == w0.id_floor()
        &&& w1.chan_floor() == w0.chan_floor()
        &&& w1.dl_count() == w0.dl_count()
        &&& w1.own_strong() == w0.own_strong()
        &&& w1.cells() == w0.cells()
    }
}

/// string building for the panic message: NOT under contract
#[cfg(feature = "deadlock-detection")]
#[verifier::external_body]
pub fn format_cycle_path(graph: &HashMap<u64, Identity>, caller: Identity, callee: Identity) -> String { unimplemented!() }

// ---------------------------------------------------------------- Duration / SystemTime pieces the metrics code uses (A11)
pub uninterp spec fn dur_nanos(d: Duration) -> nat;
pub assume_specification[ Duration::as_nanos ](d: &Duration) -> (r: u128)
    ensures r as nat == dur_nanos(*d);
pub assume_specification[ Duration::from_nanos ](n: u64) -> (r: Duration)
    ensures dur_nanos(r) == n as nat;
pub assume_specification[ Duration::as_millis ](d: &Duration) -> (r: u128)
    ensures r as nat == dur_nanos(*d) / 1_000_000;
pub assume_specification[ Duration::as_micros ](d: &Duration) -> (r: u128)
    ensures r as nat == dur_nanos(*d) / 1_000;
pub assume_specification[ Duration::as_secs ](d: &Duration) -> (r: u64)
    ensures r as nat == dur_nanos(*d) / 1_000_000_000;
pub assume_specification[ Duration::subsec_nanos ](d: &Duration) -> (r: u32)
    ensures r as nat == dur_nanos(*d) % 1_000_000_000;
pub assume_specification[ Duration::subsec_micros ](d: &Duration) -> (r: u32)
    ensures r as nat == (dur_nanos(*d) % 1_000_000_000) / 1_000;
pub assume_specification[ Duration::subsec_millis ](d: &Duration) -> (r: u32)
    ensures r as nat == (dur_nanos(*d) % 1_000_000_000) / 1_000_000;
pub assume_specification[ Duration::is_zero ](d: &Duration) -> (r: bool)
    ensures r == (dur_nanos(*d) == 0);
#[verifier::external_body]
pub fn vx_min_u128(a: u128, b: u128) -> (r: u128) ensures r == (if a <= b { a } else { b }) { if a <= b { a } else { b } }
#[verifier::external_body]
#[derive(Clone, Copy)]
pub struct SystemTime { _p: () }

/// ghost bookkeeping (like vx_note): advance the metrics monitor; inserted by contract at the start of
/// MessageProcessingGuard::new, where the measurement starts
#[verifier::external_body]
pub fn vx_mmon_note(Ghost(e): Ghost<MEv>, w: &mut World)
    ensures final(w).mmon() == mstep(old(w).mmon(), e), final(w).log() == old(w).log(),
        final(w).current_actor() == old(w).current_actor(), final(w).lock_held() == old(w).lock_held(),
        final(w).poisoned() == old(w).poisoned(), final(w).graph() == old(w).graph(),
        final(w).cap_cell() == old(w).cap_cell(), final(w).id_floor() == old(w).id_floor(),
        final(w).chan_floor() == old(w).chan_floor(), final(w).dl_count() == old(w).dl_count(),
        final(w).own_strong() == old(w).own_strong(), final(w).cells() == old(w).cells(),
{ }
#[verifier::external_body]
pub fn vx_duration_zero() -> (r: Duration) ensures dur_nanos(r) == 0 { Duration::ZERO }
pub assume_specification[ usize::next_power_of_two ](x: usize) -> (r: usize) ensures r >= x;
pub assume_specification<T, E>[ core::result::Result::<T, E>::unwrap_or ](s: core::result::Result<T, E>, d: T) -> (r: T)
    ensures r == (match s { Ok(v) => v, Err(_) => d });
/// a scratch World for effectful calls that appear inside a function whose contract declares it effect-free (rule R7-scratch)
#[verifier::external_body]
pub fn vx_scratch_world() -> World { unimplemented!() }
pub assume_specification[ Duration::from_secs ](n: u64) -> (r: Duration)
    ensures dur_nanos(r) == n as nat * 1_000_000_000;
pub assume_specification[ Duration::from_millis ](n: u64) -> (r: Duration)
    ensures dur_nanos(r) == n as nat * 1_000_000;
pub assume_specification[ Duration::from_micros ](n: u64) -> (r: Duration)
    ensures dur_nanos(r) == n as nat * 1_000;

// ---------------------------------------------------------------- panics must propagate (A6, A7)
/// The hook contracts above assume that a panicking hook unwinds out of the function that called it (and the task ends with a
/// panic JoinError).  Catching the unwind inside framework code breaks that assumption: not allowed by contract.
pub struct AssertUnwindSafe<F>(pub F);
pub struct PanicPayload;
pub trait VxCatchUnwind: Sized {
    type Out;
    fn catch_unwind(self) -> (r: core::result::Result<Self::Out, PanicPayload>)
        requires
            false, /*L:framework.hook_panics_must_propagate*/
    ;
}
impl<F> VxCatchUnwind for AssertUnwindSafe<F> {
    type Out = F;
    #[verifier::external_body]
    fn catch_unwind(self) -> (r: core::result::Result<F, PanicPayload>) { unimplemented!() }
}
#[verifier::external_body]
pub fn catch_unwind<F>(f: F) -> (r: core::result::Result<F, PanicPayload>)
    requires
        false, /*L:framework.hook_panics_must_propagate*/
{ unimplemented!() }
