"""Which items of /repo/src are put under contract, unit by unit (found by name, never by line)."""
from .passes import Unsupported, norm, impl_parts
from . import rules as R


def has(feature, g):
    return feature in g.features


def build_units(g):
    S = g.src
    units = []
    dd, metrics, tu = has("deadlock-detection", g), has("metrics", g), has("test-utils", g)

    # ---------------- types
    t = []
    t.append(g.type_text("lib.rs", S.top("lib.rs", "struct", "Identity"), "lib.rs::Identity"))
    t.append(g.impl_text("lib.rs", S.impl("lib.rs", lambda h: h == norm("impl Identity")), ["new", "name"], "lib.rs::Identity"))
    t.append(g.type_text("lib.rs", S.top("lib.rs", "enum", "ControlSignal"), "lib.rs::ControlSignal"))
    t.append(g.type_text("lib.rs", S.top("lib.rs", "enum", "MailboxMessage"), "lib.rs::MailboxMessage"))
    t.append(g.type_text("lib.rs", S.top("lib.rs", "type", "MailboxSender"), "lib.rs::MailboxSender"))
    t.append(g.type_text("lib.rs", S.top("lib.rs", "const", "DEFAULT_MAILBOX_CAPACITY"), "lib.rs::DEFAULT_MAILBOX_CAPACITY"))
    t.append(g.type_text("error.rs", S.top("error.rs", "enum", "Error"), "error.rs::Error"))
    t.append(g.type_text("error.rs", S.top("error.rs", "type", "Result"), "error.rs::Result"))
    t.append(g.impl_text("error.rs", S.impl("error.rs", lambda h: h == norm("impl Error")), ["is_retryable"], "error.rs::Error"))
    t.append(g.type_text("actor_result.rs", S.top("actor_result.rs", "enum", "FailurePhase"), "actor_result.rs::FailurePhase"))
    t.append(g.type_text("actor_result.rs", S.top("actor_result.rs", "enum", "ActorResult"), "actor_result.rs::ActorResult"))
    t.append(g.type_text("actor_ref.rs", S.top("actor_ref.rs", "struct", "ActorRef"), "actor_ref.rs::ActorRef"))
    t.append(g.type_text("actor_ref.rs", S.top("actor_ref.rs", "struct", "ActorWeak"), "actor_ref.rs::ActorWeak"))
    t.append(g.type_text("dead_letter.rs", S.top("dead_letter.rs", "enum", "DeadLetterReason"), "dead_letter.rs::DeadLetterReason"))
    units.append(("types", "\n".join(t)))

    # ---------------- ActorResult accessors (actor_result.rs)
    ar = S.impl_by("actor_result.rs", self_ty="ActorResult<T>", trait_head=None)
    u = [g.impl_text("actor_result.rs", ar, None, "actor_result.rs::ActorResult")]
    fi = S.impl_by("actor_result.rs", trait_text="From<ActorResult<T>>")
    u.append(g.impl_text("actor_result.rs", fi, ["from"], "actor_result.rs::From<ActorResult> for tuple", header="",
                         lift={"from": ("from__ActorResult__tuple", impl_parts(fi.header_raw)["self_ty"])}, bare=True))
    units.append(("actor_result", "\n".join(u)))

    # ---------------- payload dispatch (lib.rs)
    u = []
    tr = S.top("lib.rs", "trait", "PayloadHandler")
    # R10: handle_message cannot stay a trait method (its signature mentions ActorRef, which contains the
    # mailbox sender, whose message type contains `dyn PayloadHandler`: a definitional cycle for Verus).
    u.append(g.impl_text("lib.rs", tr, None, "lib.rs::PayloadHandler",
                         extra_members="    spec fn pid(&self) -> int;", lift={"handle_message": (None, None)}))
    im = S.impl("lib.rs", lambda h: h.startswith("impl<A,T>PayloadHandler<A>for T"))
    u.append(g.impl_text("lib.rs", im, None, "lib.rs::impl PayloadHandler",
                         extra_members="    open spec fn pid(&self) -> int { msg_id(*self) }",
                         lift={"handle_message": ("handle_message__PayloadHandler", "T")}))
    units.append(("payload", "\n".join(u)))

    # ---------------- lifecycle (actor.rs)
    u = [g.fn_text("actor.rs", S.top("actor.rs", "fn", "run_actor_lifecycle"), "actor.rs::run_actor_lifecycle")]
    units.append(("lifecycle", "\n".join(u)))

    # ---------------- spawn / capacity (lib.rs)
    u = [g.fn_text("lib.rs", S.top("lib.rs", "fn", n), "lib.rs::" + n)
         for n in ("set_default_mailbox_capacity", "spawn", "spawn_with_mailbox_capacity")]
    units.append(("spawn", "\n".join(u)))

    # ---------------- deadlock detection (lib.rs)
    if dd:
        u = [g.type_text("lib.rs", S.top("lib.rs", "struct", "WaitForGuard"), "lib.rs::WaitForGuard")]
        di = S.impl_by("lib.rs", trait_head="Drop", self_ty="WaitForGuard")
        u.append(g.impl_text("lib.rs", di, ["drop"], "lib.rs::Drop for WaitForGuard", header="",
                             lift={"drop": ("drop__WaitForGuard", "WaitForGuard")}, bare=True))
        u.append(g.fn_text("lib.rs", S.top("lib.rs", "fn", "has_path"), "lib.rs::has_path"))
        units.append(("deadlock_detection", "\n".join(u)))

    # ---------------- metrics (metrics/collector.rs, metrics/snapshot.rs)
    if metrics:
        f = "metrics/collector.rs"
        u = [g.type_text("metrics/snapshot.rs", S.top("metrics/snapshot.rs", "struct", "MetricsSnapshot"), "metrics/snapshot.rs::MetricsSnapshot"),
             g.type_text(f, S.top(f, "struct", "MetricsCollector"), f + "::MetricsCollector")]
        mi = S.impl_by(f, self_ty="MetricsCollector", trait_head=None)
        u.append(g.impl_text(f, mi, ["new", "record_message", "snapshot", "message_count", "avg_processing_time", "max_processing_time"],
                             f + "::MetricsCollector"))
        u.append(g.type_text(f, S.top(f, "struct", "MessageProcessingGuard"), f + "::MessageProcessingGuard"))
        gi = S.impl_by(f, self_starts="MessageProcessingGuard<", trait_head=None)
        u.append(g.impl_text(f, gi, ["new"], f + "::MessageProcessingGuard"))
        di = S.impl_by(f, trait_head="Drop", self_starts="MessageProcessingGuard<")
        u.append(g.impl_text(f, di, ["drop"], f + "::Drop for MessageProcessingGuard", header="",
                             lift={"drop": ("drop__MessageProcessingGuard", "MessageProcessingGuard<'_>")}, bare=True))
        units.append(("metrics", "\n".join(u)))

    # ---------------- dead letters
    u = [g.fn_text("dead_letter.rs", S.top("dead_letter.rs", "fn", "record"), "dead_letter.rs::record")]
    units.append(("dead_letter", "\n".join(u)))

    # ---------------- ActorRef / ActorWeak (actor_ref.rs)
    aref = S.impl("actor_ref.rs", lambda h: h == norm("impl<T: Actor> ActorRef<T>"))
    names = g.specs.ACTOR_REF_FNS(g.features)
    u = [g.impl_text("actor_ref.rs", aref, names, "actor_ref.rs::ActorRef")]
    u.append(g.impl_text("actor_ref.rs", S.impl("actor_ref.rs", lambda h: h == norm("impl<T: Actor> Clone for ActorRef<T>")),
                         ["clone"], "actor_ref.rs::Clone for ActorRef"))
    aweak = S.impl("actor_ref.rs", lambda h: h == norm("impl<T: Actor> ActorWeak<T>"))
    u.append(g.impl_text("actor_ref.rs", aweak, ["upgrade", "identity", "is_alive"], "actor_ref.rs::ActorWeak"))
    u.append(g.impl_text("actor_ref.rs", S.impl("actor_ref.rs", lambda h: h == norm("impl<T: Actor> Clone for ActorWeak<T>")),
                         ["clone"], "actor_ref.rs::Clone for ActorWeak"))
    units.append(("actor_ref", "\n".join(u)))

    # ---------------- type-erased handles (handler.rs, actor_control.rs)
    TARGET_DECL = "    spec fn target(&self) -> HandleView;"
    TARGET_IMPL = "    open spec fn target(&self) -> HandleView { self.hv() }"
    LIFT = ("clone_boxed", "downgrade", "upgrade")
    u = []
    for file, traits in (("handler.rs", ("TellHandler", "AskHandler", "WeakTellHandler", "WeakAskHandler")),
                         ("actor_control.rs", ("ActorControl", "WeakActorControl"))):
        for tr in traits:
            who = "ActorWeak" if tr.startswith("Weak") else "ActorRef"
            decl = S.top(file, "trait", tr)
            u.append(g.impl_text(file, decl, None, "%s::%s" % (file, tr), extra_members=TARGET_DECL,
                                 lift={m: (None, None) for m in LIFT}, skip=("debug_fmt",)))
            im = S.impl_by(file, trait_head=tr, self_ty="%s<T>" % who)
            u.append(g.impl_text(file, im, None, "%s::%s for %s" % (file, tr, who), extra_members=TARGET_IMPL,
                                 lift={m: ("%s__%s__%s" % (m, who, tr), "%s<T>" % who) for m in LIFT}, skip=("debug_fmt",)))
            # Clone for Box<dyn Trait>
            ci = S.impl_by(file, trait_head="Clone", self_starts="Box<dyn %s" % tr, exact_dyn=tr)
            u.append(g.impl_text(file, ci, ["clone"], "%s::Clone for Box<dyn %s>" % (file, tr), header="",
                                 lift={"clone": ("clone__Box%s" % tr, impl_parts(ci.header_raw)["self_ty"])}, bare=True))
            for amp, nm in (("", who), ("&", "Ref" + who)):
                fi = S.impl_by(file, trait_text="From<%s%s<T>>" % (amp, who), self_starts="Box<dyn %s" % tr, exact_dyn=tr)
                u.append(g.impl_text(file, fi, ["from"], "%s::From<%s%s> for Box<dyn %s>" % (file, amp, who, tr), header="",
                                     lift={"from": ("from__%s__Box%s" % (nm, tr), impl_parts(fi.header_raw)["self_ty"])}, bare=True))
    units.append(("erased_handles", "\n".join(u)))
    return units
