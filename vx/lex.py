"""Token-level Rust lexer used by the extractor (vx).

No line numbers are used anywhere: items and constructs are found by name and by bracket
matching.  The lexer is lossless: ''.join(t.text for t in lex(s)) == s.
"""
import re
from collections import namedtuple

Tok = namedtuple("Tok", "kind text pos")
# kinds: ws, lc (line comment), bc (block comment), id, life, chr, str, num, p (punctuation)

_PUNCT3 = ("..=", "...", "<<=", ">>=")
_PUNCT2 = ("::", "->", "=>", "==", "!=", "<=", ">=", "&&", "||", "+=", "-=", "*=", "/=",
           "%=", "^=", "&=", "|=", "..")
_ID = re.compile(r"[A-Za-z_][A-Za-z0-9_]*")
_NUM = re.compile(r"[0-9][0-9A-Za-z_]*(\.[0-9][0-9A-Za-z_]*)?")
_WS = re.compile(r"\s+")


class LexError(Exception):
    pass


def lex(s):
    out = []
    i, n = 0, len(s)
    while i < n:
        c = s[i]
        m = _WS.match(s, i)
        if m:
            out.append(Tok("ws", m.group(), i)); i = m.end(); continue
        if s.startswith("//", i):
            j = s.find("\n", i)
            j = n if j < 0 else j
            out.append(Tok("lc", s[i:j], i)); i = j; continue
        if s.startswith("/*", i):
            depth, j = 1, i + 2
            while j < n and depth:
                if s.startswith("/*", j): depth += 1; j += 2
                elif s.startswith("*/", j): depth -= 1; j += 2
                else: j += 1
            out.append(Tok("bc", s[i:j], i)); i = j; continue
        # raw strings / byte strings
        m = re.match(r'b?r(#*)"', s[i:i + 40])
        if m:
            hashes = m.group(1)
            end = s.find('"' + hashes, i + m.end())
            if end < 0: raise LexError("unterminated raw string at %d" % i)
            j = end + 1 + len(hashes)
            out.append(Tok("str", s[i:j], i)); i = j; continue
        if c == '"' or (c == 'b' and i + 1 < n and s[i + 1] == '"'):
            j = i + (2 if c == 'b' else 1)
            while j < n and s[j] != '"':
                j += 2 if s[j] == '\\' else 1
            if j >= n: raise LexError("unterminated string at %d" % i)
            out.append(Tok("str", s[i:j + 1], i)); i = j + 1; continue
        if c == "'":
            # char literal or lifetime
            m = re.match(r"'(\\.[^']*|[^\\'])'", s[i:i + 16])
            if m:
                out.append(Tok("chr", m.group(), i)); i += m.end(); continue
            m = _ID.match(s, i + 1)
            if m:
                out.append(Tok("life", s[i:m.end()], i)); i = m.end(); continue
            raise LexError("stray quote at %d" % i)
        m = _ID.match(s, i)
        if m:
            # raw identifiers r#x are not used in this code base
            out.append(Tok("id", m.group(), i)); i = m.end(); continue
        m = _NUM.match(s, i)
        if m:
            # do not swallow `0..n` as a float
            txt = m.group()
            if "." in txt and s.startswith("..", i + txt.index(".")):
                txt = txt[:txt.index(".")]
            out.append(Tok("num", txt, i)); i += len(txt); continue
        for p in _PUNCT3:
            if s.startswith(p, i):
                out.append(Tok("p", p, i)); i += 3; break
        else:
            for p in _PUNCT2:
                if s.startswith(p, i):
                    out.append(Tok("p", p, i)); i += 2; break
            else:
                out.append(Tok("p", c, i)); i += 1
    return out


def untok(toks):
    return "".join(t.text for t in toks)


OPEN = {"(": ")", "[": "]", "{": "}"}
CLOSE = {v: k for k, v in OPEN.items()}


class Code:
    """A lexed text with helpers over its significant (non-ws, non-comment) tokens."""

    def __init__(self, text):
        self.text = text
        self.toks = lex(text)
        self.sig = [i for i, t in enumerate(self.toks) if t.kind not in ("ws", "lc", "bc")]
        self._match = None

    def __len__(self):
        return len(self.sig)

    def t(self, k):
        """k-th significant token text ('' past the end)."""
        if 0 <= k < len(self.sig):
            return self.toks[self.sig[k]].text
        return ""

    def kind(self, k):
        if 0 <= k < len(self.sig):
            return self.toks[self.sig[k]].kind
        return ""

    def pos(self, k):
        """byte offset where significant token k starts (len(text) past the end)."""
        if k >= len(self.sig):
            return len(self.text)
        return self.toks[self.sig[k]].pos

    def end(self, k):
        tk = self.toks[self.sig[k]]
        return tk.pos + len(tk.text)

    def matches(self):
        if self._match is None:
            m, st = {}, []
            for k in range(len(self.sig)):
                x = self.t(k)
                if self.kind(k) != "p":
                    continue
                if x in OPEN:
                    st.append(k)
                elif x in CLOSE:
                    if not st or self.t(st[-1]) != CLOSE[x]:
                        raise LexError("unbalanced %r at offset %d" % (x, self.pos(k)))
                    o = st.pop(); m[o] = k; m[k] = o
            if st:
                raise LexError("unclosed %r at offset %d" % (self.t(st[-1]), self.pos(st[-1])))
            self._match = m
        return self._match

    def close(self, k):
        return self.matches()[k]

    def enclosing_open(self, k):
        """index of the innermost open bracket enclosing significant token k, or -1."""
        depth = 0
        j = k - 1
        while j >= 0:
            x = self.t(j)
            if self.kind(j) == "p":
                if x in CLOSE:
                    j = self.matches()[j] - 1
                    continue
                if x in OPEN:
                    return j
            j -= 1
        return -1

    def seq(self, k, *texts):
        return all(self.t(k + d) == x for d, x in enumerate(texts))

    def slice(self, a, b):
        """source text from the start of sig token a to the start of sig token b."""
        return self.text[self.pos(a):self.pos(b)]

    def find_seq(self, start, *texts):
        for k in range(start, len(self.sig) - len(texts) + 1):
            if self.seq(k, *texts):
                return k
        return -1


def apply_edits(text, edits):
    """edits: list of (start, end, replacement) on byte offsets, non-overlapping."""
    edits = sorted(edits, key=lambda e: (e[0], e[1]))
    out, last = [], 0
    for a, b, r in edits:
        if a < last:
            raise ValueError("overlapping edits at %d (last %d): %r" % (a, last, r[:40]))
        out.append(text[last:a]); out.append(r); last = b
    out.append(text[last:])
    return "".join(out)
