"""R12 / rule I: inline a same-file helper that has no contract.

Verification is modular: a call to a function that has no contract tells the caller nothing, and a call to a function
the plan does not extract does not even resolve.  When a function under contract calls a *private helper defined in the
same source file* for which no contract exists (typically the product of an "extract method" refactoring), the helper's
body is substituted for the call, mechanically, so that the caller's contract is still decided over the code that runs:

    f(a1, .., an)            ->  { let p1 = a1; .. let pn = an; BODY }
    recv.m(a1, .., an)       ->  same, `self` in BODY replaced by `recv` (recv must be a plain identifier)
    f::<G1, ..>(..)          ->  accepted when each generic parameter the helper's body mentions is passed the caller's
                                 parameter of the same name
    Self::f(..) / Ty::f(..)  ->  as the first form (no receiver)
    <call>.await             ->  the `.await` is dropped with the call when the helper is `async fn` (rule R4 erases it anyway)

A parameter of reference type whose argument is `&x` / `&mut x` (x an identifier) is substituted instead of bound
(`*p` -> `x`, `p.` -> `x.`, other uses -> the argument text), because Verus does not accept `let p = &mut x`.

Guard clauses of the helper are first put in structured form (`if C { A; return X; } REST` -> `if C { A; X } else { REST }`,
a final `return X;` -> `X`), which needs no assumption about the call site.  Other early exits keep their meaning only in two positions, and are accepted only there: a helper with `return`
/ `?` may be inlined where the call is in *return position* of the caller (`return f(..);` or the tail expression of the
function body, not inside a closure); a helper with `?` (no `return`) may be inlined where the call is followed by `?`
and both functions return the crate's `Result<_>` alias or `Result<_, E>` with the same `E` (the conversion is the identity).

Anything that could change the meaning is refused (Unsupported -> the caller's contract is ASSUMED, as before this rule):
`return` or `?` in the helper body elsewhere (they would leave the caller), recursion, a helper of a different impl that mentions
`Self`, generic parameters of the helper that the caller does not have under the same name, name capture (a free
lower-case identifier of the helper body that is a local of the caller; an argument that mentions an earlier parameter).
"""
import re
from .lex import Code, apply_edits, OPEN
from .passes import Unsupported, if_body_open
from .rules import rewrite, split_args

KEYWORDS = {"let", "mut", "if", "else", "match", "loop", "while", "for", "in", "return", "break", "continue", "fn", "as",
            "ref", "move", "async", "await", "self", "Self", "true", "false", "crate", "super", "where", "impl", "dyn",
            "unsafe", "use", "pub", "struct", "enum", "type", "const", "static", "trait", "mod"}


def file_fns(items):
    """name -> [(fn item, owner impl item | None)] for free fns and inherent-impl methods with a body"""
    out = {}
    for it in items:
        if it.kind == "fn" and it.body is not None:
            out.setdefault(it.name, []).append((it, None))
        elif it.kind == "impl":
            for ch in it.children:
                if ch.kind == "fn" and ch.body is not None:
                    out.setdefault(ch.name, []).append((ch, it))
    return out


def owner_of(items, item):
    for it in items:
        if it.kind == "impl" and any(ch is item for ch in it.children):
            return it
    return None


def _split_params(c, op):
    """parameter ranges of a fn signature: commas at bracket depth 0 AND angle depth 0 (in a parameter list every `<` opens
    generic arguments)"""
    cl = c.close(op)
    parts, start, j, ang = [], op + 1, op + 1, 0
    while j < cl:
        x = c.t(j)
        if c.kind(j) == "p":
            if x in OPEN:
                j = c.close(j) + 1; continue
            if x == "<": ang += 1
            elif x == ">" and ang > 0: ang -= 1
            elif x == ">>" and ang > 0: ang = max(0, ang - 2)
            elif x == "," and ang == 0:
                parts.append((start, j)); start = j + 1
        j += 1
    if start < cl:
        parts.append((start, cl))
    return parts


def _sig_parts(text):
    """(is_async, generic names, self kind | None, [(mut?, name, type text)], body text)"""
    c = Code(text)
    k = c.find_seq(0, "fn")
    is_async = any(c.t(q) == "async" for q in range(0, k))
    j = k + 2
    gens = []
    if c.t(j) == "<":
        depth, m = 0, j
        while True:
            if c.t(m) == "<": depth += 1
            elif c.t(m) == ">":
                depth -= 1
                if depth == 0: break
            m += 1
        # names of the generic parameters (lifetimes ignored)
        d2 = 0
        for q in range(j + 1, m):
            x = c.t(q)
            if x == "<": d2 += 1
            elif x == ">": d2 -= 1
            elif d2 == 0 and c.kind(q) == "id" and c.t(q - 1) in ("<", ",") and x != "const":
                gens.append(x)
        j = m + 1
    if c.t(j) != "(":
        raise Unsupported("inline: cannot read the helper's parameter list")
    self_kind, params = None, []
    for a, b in _split_params(c, j):
        toks = [c.t(q) for q in range(a, b)]
        if "self" in toks[:3] and ":" not in toks[:3]:
            self_kind = "".join(toks)
            continue
        q = a
        mut = False
        if c.t(q) == "mut":
            mut = True; q += 1
        if c.kind(q) != "id" or c.t(q + 1) != ":":
            raise Unsupported("inline: helper parameter is a pattern")
        params.append((mut, c.t(q), c.slice(q + 2, b).strip() if b < len(c) else ""))
    cl = c.close(j)
    m = cl
    while m < len(c) and c.t(m) != "{":
        if c.t(m) in ("(", "["): m = c.close(m)
        m += 1
    if c.t(m) != "{":
        raise Unsupported("inline: helper without body")
    return is_async, gens, self_kind, params, text[c.pos(m):c.end(c.close(m))]


def _ret_type(text):
    c = Code(text)
    k = c.find_seq(0, "fn")
    j = k
    while j < len(c) and c.t(j) != "(":
        j += 1
    j = c.close(j) + 1
    if c.t(j) != "->":
        return ""
    m = j + 1
    while m < len(c) and c.t(m) not in ("{", "where", ";"):
        if c.t(m) in ("(", "["): m = c.close(m)
        m += 1
    return re.sub(r"\s+", "", c.slice(j + 1, m))


def _same_error_type(caller_text, helper_text):
    """both return the crate's `Result<T>` alias (one type argument), or `Result<_, E>` with textually the same E:
    then `?` inside the helper converts the error exactly as `helper(..)?` in the caller did (identity)"""
    def err(t):
        t = re.sub(r"^(\w+::)*", "", t)
        if not t.startswith("Result<") or not t.endswith(">"):
            return None
        inner, depth, parts, cur = t[7:-1], 0, [], ""
        for ch in inner:
            if ch in "<([": depth += 1
            elif ch in ">)]": depth -= 1
            if ch == "," and depth == 0:
                parts.append(cur); cur = ""
            else:
                cur += ch
        parts.append(cur)
        return "<alias>" if len(parts) == 1 else parts[1]
    a, b = err(_ret_type(caller_text)), err(_ret_type(helper_text))
    return a is not None and a == b


def eliminate_returns(body):
    """`{ S..; if C { A..; return X; } R..; tail }`  ->  `{ S..; if C { A..; X } else { R..; tail } }` (repeatedly, and a final
    `return X;` -> `X`): the structured form of a guard-clause helper.  Returns the body unchanged if any other `return`
    would remain."""
    from .raii import _block_statements
    c = Code(body)
    if not any(c.kind(q) == "id" and c.t(q) == "return" for q in range(len(c))):
        return body

    def conv(c, ob):
        """text of the block opened at sig index ob with its top-level guard-clause returns eliminated, or None"""
        cb = c.close(ob)
        stmts = _block_statements(c, ob)
        out = []
        for i, (a, b) in enumerate(stmts):
            txt = c.text[c.pos(a):(c.pos(b) if b < len(c) else len(c.text))]
            has_ret = any(c.kind(q) == "id" and c.t(q) == "return" for q in range(a, min(b, cb)))
            if not has_ret:
                out.append(txt)
                continue
            if c.t(a) == "return":
                # `return X;` as a top-level statement: the rest is dead code
                e = a + 1
                while e < b and c.t(e) != ";":
                    if c.t(e) in OPEN: e = c.close(e)
                    e += 1
                out.append(c.slice(a + 1, e).strip())
                return "{ " + "\n".join(out) + " }"
            if c.t(a) == "if":
                hb = if_body_open(c, a)
                he = c.close(hb)
                if c.t(he + 1) == "else":
                    return None
                inner = _block_statements(c, hb)
                if not inner or c.t(inner[-1][0]) != "return":
                    return None
                la, lb = inner[-1]
                if any(c.kind(q) == "id" and c.t(q) == "return" for q in range(hb, la)):
                    return None
                e = la + 1
                while e < lb and c.t(e) != ";":
                    if c.t(e) in OPEN: e = c.close(e)
                    e += 1
                val = c.slice(la + 1, e).strip()
                head = c.text[c.pos(a):c.pos(la)]
                # the rest of the block becomes the else branch
                rest_open = "{ " + c.text[c.end(he):c.pos(cb)] + " }"
                rest = eliminate_returns(rest_open)
                rc = Code(rest)
                if any(rc.kind(q) == "id" and rc.t(q) == "return" for q in range(len(rc))):
                    return None
                out.append("%s %s } else %s" % (head, val, rest))
                return "{ " + "\n".join(out) + " }"
            return None
        return None
    r = conv(c, 0)
    return r if r is not None else body


def eliminate_option_try(body, ret_type):
    """in a helper returning `Option<_>`:  `{ S..; let PAT = E?; REST }`  ->  `{ S..; match E { Some(PAT) => { REST }, None => None } }`
    (what `?` on an Option means), repeatedly, for `let` statements of the body's top level whose initialiser ends in `?`"""
    from .raii import _block_statements
    if not re.match(r"^(\w+::)*Option<", ret_type or ""):
        return body
    for _ in range(8):
        c = Code(body)
        stmts = _block_statements(c, 0)
        hit = None
        for (a, b) in stmts:
            if c.t(a) != "let":
                continue
            e = b - 1 if c.t(b - 1) == ";" else b
            if c.t(e - 1) != "?" or c.kind(e - 1) != "p":
                continue
            eq = a + 1
            while eq < e and c.t(eq) != "=":
                if c.t(eq) in OPEN: eq = c.close(eq)
                eq += 1
            if eq >= e:
                continue
            # no other `?` before this statement at top level and none inside this initialiser
            if any(c.t(q) == "?" and c.kind(q) == "p" for q in range(eq + 1, e - 1)):
                continue
            hit = (a, b, eq, e)
            break
        if not hit:
            return body
        a, b, eq, e = hit
        cb = c.close(0)
        pat = c.slice(a + 1, eq).strip()
        if ":" in pat:
            pat = pat.split(":")[0].strip()
        init = c.slice(eq + 1, e - 1).strip()
        rest = c.text[c.pos(b):c.pos(cb)]
        body = c.text[:c.pos(a)] + "match %s { Some(%s) => { %s }, None => None }\n" % (init, pat, rest) + c.text[c.pos(cb):]
    return body


def _let_names(c, a, b):
    """identifiers bound by let / closure params / match arms are not tracked precisely: every identifier that directly
    follows `let`, `let mut`, or appears in a `let` pattern before `=`"""
    out = set()
    q = a
    while q < b:
        if c.t(q) == "let":
            m = q + 1
            while m < b and c.t(m) not in ("=", ";"):
                if c.kind(m) == "id" and c.t(m) not in KEYWORDS and c.t(m + 1) not in ("(", "::", "{") and c.t(m - 1) != ":":
                    out.add(c.t(m))
                m += 1
        q += 1
    return out


def _free_lower_idents(c, a, b, bound):
    out = set()
    for q in range(a, b):
        if c.kind(q) != "id":
            continue
        x = c.t(q)
        if x in KEYWORDS or x in bound or not (x[0].islower() or x[0] == "_"):
            continue
        if c.t(q - 1) in (".", "::") or c.t(q + 1) in ("::", "(", "!"):
            continue
        if c.t(q + 1) == ":" and c.t(q - 1) in ("{", ","):
            continue            # struct-literal field name
        out.add(x)
    return out


def _subst_ident(body, name, fn):
    """replace identifier token `name` (not a field / path segment) in body; fn(c, q) -> replacement | None"""
    c = Code(body)
    edits = []
    for q in range(len(c)):
        if c.kind(q) == "id" and c.t(q) == name and c.t(q - 1) not in (".", "::") and c.t(q + 1) != "::":
            # struct-literal shorthand / field name `name: value` is left alone when it is a field label
            if c.t(q + 1) == ":" and c.t(q - 1) in ("{", ","):
                continue
            r = fn(c, q)
            if r is not None:
                edits.append(r)
    return apply_edits(body, edits)


def rule_inline(text, helpers, fns, caller_item, caller_owner, caller_generics, trace):
    """inline calls to the named helpers (those Verus reported as unresolved) in the function text"""
    count = [0]

    def expand(c, name, call_k, op, recv, path_start, turbofish=None):
        cands = fns.get(name, [])
        if len(cands) != 1:
            raise Unsupported("inline: helper %s is not unique in its file" % name)
        item, owner = cands[0]
        if item is caller_item:
            raise Unsupported("inline: recursion through %s" % name)
        count[0] += 1
        if count[0] > 12:
            raise Unsupported("inline: too many expansions (recursion?)")
        is_async, gens, self_kind, params, body = _sig_parts(item.text)
        # logging macros go first (rule R3 would drop them after inlining anyway; their `name = value` fields are not identifiers)
        from . import rules as _R
        body = _R.rule_logging(_R.rule_paths(body))
        body = eliminate_option_try(body, _ret_type(item.text))
        body = eliminate_returns(body)
        bc = Code(body)
        # where the call stands decides whether early exits of the helper keep their meaning once inlined
        cl_ = c.close(op)
        aft = cl_ + 1
        if is_async and c.t(aft) == "." and c.t(aft + 1) == "await":
            aft += 2
        fb = c.find_seq(0, "fn")
        while fb < len(c) and c.t(fb) != "{":
            if c.t(fb) in ("(", "["): fb = c.close(fb)
            fb += 1
        in_closure = False
        eo = c.enclosing_open(path_start)
        while eo > fb:
            if c.t(eo) == "{" and c.t(eo - 1) == "|":
                in_closure = True
            if c.t(eo) == "(" :
                # an argument position: a closure without braces cannot be told apart here
                a0 = eo + 1
                if any(c.t(q) == "|" for q in range(a0, path_start)):
                    in_closure = True
            eo = c.enclosing_open(eo)
        return_pos = (not in_closure) and (
            (c.t(path_start - 1) == "return" and c.t(aft) in (";", "}"))
            or (c.t(path_start - 1) in ("{", ";", "}") and c.t(aft) == "}" and c.close(aft) == fb))
        try_pos = (not in_closure) and c.t(aft) == "?" and _same_error_type(caller_item.text, item.text)
        for q in range(len(bc)):
            if bc.kind(q) == "id" and bc.t(q) == "return" and not return_pos:
                raise Unsupported("inline: `return` in helper %s (call not in return position)" % name)
            if bc.kind(q) == "p" and bc.t(q) == "?" and not (return_pos or try_pos):
                raise Unsupported("inline: `?` in helper %s (call neither in return position nor followed by `?`)" % name)
            if bc.kind(q) == "id" and bc.t(q) == "Self" and owner is not caller_owner:
                raise Unsupported("inline: helper %s of another impl mentions Self" % name)
            if bc.kind(q) == "id" and bc.t(q) in gens:
                if turbofish is not None:
                    gi = gens.index(bc.t(q))
                    if gi >= len(turbofish) or turbofish[gi] != bc.t(q):
                        raise Unsupported("inline: generic argument %s of helper %s is not the caller's parameter of that name" % (bc.t(q), name))
                if bc.t(q) not in caller_generics:
                    raise Unsupported("inline: generic parameter %s of helper %s" % (bc.t(q), name))
        arg_ranges = split_args(c, op)
        args = [c.text[c.pos(a):c.pos(b)].strip() for a, b in arg_ranges]
        if self_kind is not None and recv is None:
            # UFCS call Ty::m(recv, ..): only a plain identifier receiver
            if not args:
                raise Unsupported("inline: receiver of %s missing" % name)
            r0 = args.pop(0)
            r0 = re.sub(r"^&\s*(mut\s+)?", "", r0)
            if not re.match(r"^\w+$", r0):
                raise Unsupported("inline: receiver of %s is not an identifier" % name)
            recv = r0
        if self_kind is None and recv is not None:
            raise Unsupported("inline: %s has no receiver" % name)
        if len(args) != len(params):
            raise Unsupported("inline: arity of %s" % name)
        body_lets = _let_names(bc, 0, len(bc))
        pnames = {p[1] for p in params}
        # name capture: free identifiers of the helper body that are locals of the caller
        caller_c = Code(caller_item.text)
        caller_locals = _let_names(caller_c, 0, len(caller_c))
        try:
            _a, _g, _s, cparams, _b = _sig_parts(caller_item.text)
            caller_locals |= {p[1] for p in cparams}
        except Unsupported:
            pass
        free = _free_lower_idents(bc, 0, len(bc), body_lets | pnames)
        cap = free & caller_locals
        if cap:
            raise Unsupported("inline: name capture of %s in helper %s" % (sorted(cap), name))
        lets = []
        seen = []
        for (mut, pn, pty), arg in zip(params, args):
            ac = Code(arg)
            aids = {ac.t(q) for q in range(len(ac)) if ac.kind(q) == "id" and ac.t(q - 1) not in (".", "::")}
            if arg != pn and (aids & set(seen)):
                raise Unsupported("inline: argument of %s mentions an earlier parameter name" % name)
            m = re.match(r"^&\s*(mut\s+)?(\w+)$", arg)
            if m and pty.startswith("&") and m.group(2) not in KEYWORDS - {"self"}:
                x = m.group(2)
                if x != pn and (x in body_lets or x in pnames):
                    raise Unsupported("inline: %s is shadowed in helper %s" % (x, name))
                def rep(cc, q, x=x, arg=arg):
                    if cc.t(q - 1) == "*":
                        return (cc.pos(q - 1), cc.end(q), x)
                    if cc.t(q + 1) == ".":
                        return (cc.pos(q), cc.end(q), x)
                    return (cc.pos(q), cc.end(q), arg)
                if pn in body_lets:
                    raise Unsupported("inline: parameter %s rebound in helper %s" % (pn, name))
                body = _subst_ident(body, pn, rep)
            elif arg == pn and not mut:
                pass
            else:
                lets.append("let %s%s = %s;" % ("mut " if mut else "", pn, arg))
                seen.append(pn)
        if recv is not None and recv != "self":
            def rep_self(cc, q):
                if cc.t(q + 1) != ".":
                    raise Unsupported("inline: bare `self` in helper %s with receiver %s" % (name, recv))
                return (cc.pos(q), cc.end(q), recv)
            body = _subst_ident(body, "self", rep_self)
        end = c.close(op)
        endpos = c.end(end)
        if is_async and c.t(end + 1) == "." and c.t(end + 2) == "await":
            endpos = c.end(end + 2)
        start = c.pos(path_start)
        trace.append(name)
        # parenthesised: a block at the start of an expression statement would otherwise end the statement (`{..} == x`)
        return (start, endpos, "({ /*inlined:%s*/ %s %s })" % (name, " ".join(lets), body))

    def finder(c):
        for k in range(len(c)):
            if c.kind(k) != "id" or c.t(k) not in helpers or c.t(k - 1) == "fn":
                continue
            op, turbofish = k + 1, None
            if c.t(k + 1) == "::" and c.t(k + 2) == "<":
                depth, m = 0, k + 2
                while m < len(c):
                    if c.t(m) == "<": depth += 1
                    elif c.t(m) == ">":
                        depth -= 1
                        if depth == 0: break
                    m += 1
                turbofish = [x.strip() for x in c.slice(k + 3, m).split(",")]
                op = m + 1
            if c.t(op) != "(":
                continue
            name = c.t(k)
            if c.t(k - 1) == ".":
                # method call: receiver must be one identifier
                r = k - 2
                if c.kind(r) != "id" or c.t(r - 1) in (".", "::", ")", "]", "?"):
                    raise Unsupported("inline: receiver of %s is not a plain identifier" % name)
                return expand(c, name, k, op, c.t(r), r, turbofish)
            if c.t(k - 1) == "::":
                # Self::f( / Ty::f(   (no generic arguments on the type)
                r = k - 2
                if c.kind(r) != "id" or c.t(r - 1) in ("::", ">"):
                    raise Unsupported("inline: qualified call of %s" % name)
                return expand(c, name, k, op, None, r, turbofish)
            return expand(c, name, k, op, None, k, turbofish)
        return None
    return rewrite(text, finder)
