"""Run Verus on the extracted text of one feature set and map diagnostics back to obligation labels."""
import os, re, json, hashlib, subprocess, time, sys
from concurrent.futures import ThreadPoolExecutor
from .gen import Gen, fs_name, index_markers
from .passes import Unsupported
from .lex import LexError

VERIF_FAIL_PAT = ("postcondition not satisfied", "precondition not satisfied", "invariant not satisfied",
                  "assertion failed", "possible arithmetic", "possible division", "loop ensures",
                  "not satisfied", "possible bit shift", "value may be out of range")
UNDECIDED_PAT = ("rlimit", "resource limit", "timed out", "timeout")
MAX_ERRORS = 60


def verus_cmd(path, extra=()):
    return ["verus", os.path.basename(path), "--error-format=json", "--output-json", "--time",
            "--multiple-errors", str(MAX_ERRORS)] + list(extra)


def run_verus(path, extra=(), timeout=900):
    t0 = time.time()
    try:
        p = subprocess.run(verus_cmd(path, extra), cwd=os.path.dirname(path), capture_output=True,
                           text=True, timeout=timeout)
    except subprocess.TimeoutExpired:
        return {"rc": -1, "diags": [], "out": {}, "wall": time.time() - t0, "timeout": True, "stderr": ""}
    diags = []
    for line in p.stderr.splitlines():
        line = line.strip()
        if line.startswith("{"):
            try:
                diags.append(json.loads(line))
            except ValueError:
                pass
    out = {}
    try:
        out = json.loads(p.stdout[p.stdout.index("{"):])
    except ValueError:
        pass
    return {"rc": p.returncode, "diags": diags, "out": out, "wall": time.time() - t0, "timeout": False,
            "stderr": p.stderr[-4000:] if not diags else ""}


def classify(diags, labels, funcs, lines):
    """-> (failures, hard_errors, undecided_msgs)
    failures: [{label, function, message, line, clause_line, rendered}]"""
    failures, hard, undec = [], [], []

    def func_at(line):
        best = None
        for a, b, nm in funcs:
            if a <= line <= b and (best is None or (b - a) < (best[1] - best[0])):
                best = (a, b, nm)
        return best[2] if best else None

    for d in diags:
        if d.get("level") != "error":
            continue
        msg = d.get("message", "")
        low = msg.lower()
        if msg.startswith("aborting due to"):
            continue
        if any(p in low for p in UNDECIDED_PAT):
            undec.append(msg); continue
        if d.get("code") or not any(p in low for p in VERIF_FAIL_PAT):
            hard.append({"message": msg, "rendered": d.get("rendered", "")[:1500],
                         "line": ([sp for sp in (d.get("spans") or []) if sp.get("is_primary")] or d.get("spans") or [{}])[0].get("line_start")})
            continue
        spans = d.get("spans", [])
        label, clause_line, site_line = None, None, None
        clause_spans = [sp for sp in spans if "failed" in (sp.get("label") or "")]
        site_spans = [sp for sp in spans if sp not in clause_spans]
        for sp in clause_spans or spans:
            ln = sp.get("line_start")
            if ln in labels and label is None:
                label, clause_line = labels[ln], ln
        if clause_line is None and clause_spans:
            clause_line = clause_spans[0].get("line_start")
        if site_spans:
            site_line = site_spans[0].get("line_start")
        elif spans:
            site_line = spans[0].get("line_start")
        fn = func_at(site_line) if site_line else None
        if fn is None and clause_line:
            fn = func_at(clause_line)
        vac = bool(site_line and "/*VA*/" in lines[site_line - 1]) if site_line else False
        failures.append({"label": label, "function": fn, "message": msg, "line": site_line,
                         "clause_line": clause_line, "vacuity_probe": vac,
                         "site_text": lines[site_line - 1].strip()[:200] if site_line else "",
                         "rendered": d.get("rendered", "")[:3000]})
    return failures, hard, undec


def make_variants(text):
    """vacuity probes: variant k turns every /*Vk*/ marker into `assert(false)`."""
    ks = sorted(set(int(m) for m in re.findall(r"/\*V(\d+)\*/", text)))
    out = []
    for k in ks:
        v = text.replace("/*V%d*/" % k, "assert(false); /*VA*/")
        n = v.count("/*VA*/")
        out.append((k, v, n))
    return out


class _G:
    """what the runner needs from a Gen, restorable from the extraction cache"""
    pass


def _inputs_hash(repo, verif):
    h = hashlib.sha256()
    for base in (os.path.join(repo, "src"), os.path.join(verif, "vx"), os.path.join(verif, "shim"), os.path.join(verif, "contracts")):
        for root, dirs, files in sorted(os.walk(base)):
            dirs[:] = sorted(d for d in dirs if d != "__pycache__")
            for f in sorted(files):
                if f.endswith((".rs", ".py")):
                    h.update(f.encode()); h.update(open(os.path.join(root, f), "rb").read())
    return h.hexdigest()[:24]


import threading
_GEN_LOCK = threading.Lock()


def cached_gen(repo, features, verif, assume, reasons, inline=None):
    """extraction is deterministic in (/repo/src, vx, shim, contracts, features, assumed set, inline requests): cache its output"""
    with _GEN_LOCK:
        return _cached_gen(repo, features, verif, assume, reasons, inline or {})


def _cached_gen(repo, features, verif, assume, reasons, inline):
    ikey = ";".join("%s<-%s" % (k, ",".join(sorted(v))) for k, v in sorted(inline.items()))
    key = hashlib.sha256(("%s|%s|%s|%s" % (_inputs_hash(repo, verif), fs_name(features), ",".join(sorted(assume)), ikey)).encode()).hexdigest()[:24]
    path = os.path.join(verif, "build", "cache", "gen_%s.json" % key)
    if os.path.exists(path):
        try:
            d = json.load(open(path))
            g = _G()
            g.assume = set(d["assume"]); g.assume_reasons = d["assume_reasons"]; g.report = d["report"]
            g.fn_keys_with_body = set(d["fn_keys_with_body"])
            return g, d["text"]
        except (ValueError, KeyError):
            pass
    g = Gen(repo, features, verif)
    g.assume = set(assume)
    g.assume_reasons = dict(reasons)
    g.inline = {k: set(v) for k, v in inline.items()}
    text = g.assemble()
    os.makedirs(os.path.dirname(path), exist_ok=True)
    import uuid
    tmp = path + ".%s.tmp" % uuid.uuid4().hex
    json.dump({"text": text, "assume": sorted(g.assume), "assume_reasons": g.assume_reasons, "report": g.report,
               "fn_keys_with_body": sorted(g.fn_keys_with_body)}, open(tmp, "w"))
    os.replace(tmp, path)
    return g, text


def _is_file_fn(repo, features, key, name):
    """is `name` a fn with a body in the source file of the function with this key?"""
    from .gen import Source
    from .inline import file_fns
    f = key.split("::")[0]
    try:
        return name in file_fns(Source(repo, features).items.get(f, []))
    except (Unsupported, LexError):
        return False


def verify_feature_set(repo, verif, features, use_cache=True, vacuity=True, extra=(), tag=""):
    """returns a dict: status in {ok, fail, undecided}, failures, stats ...
    A function that is outside the extraction rules, or whose extracted text Verus rejects, is retried with its contract
    ASSUMED (external_body): `assumed_functions` lists them; the properties they serve are undecided, the rest stay decidable."""
    name = fs_name(features)
    out_dir = os.path.join(verif, "build", name)
    os.makedirs(out_dir, exist_ok=True)
    import fcntl
    lock = open(os.path.join(out_dir, ".lock%s" % tag), "w")
    fcntl.flock(lock, fcntl.LOCK_EX)
    try:
        assume, reasons = set(), {}
        inline, inline_tried = {}, set()
        last = None
        for attempt in range(8):
            res = {"features": sorted(features), "name": name}
            t0 = time.time()
            try:
                g, text = cached_gen(repo, features, verif, assume, reasons, inline)
            except (Unsupported, LexError) as e:
                res.update(status="undecided", reason="extraction: %s" % e, failures=[], labels={}, wall=time.time() - t0)
                return res
            assume |= g.assume; reasons.update(g.assume_reasons)
            key = hashlib.sha256((text + "|" + " ".join(extra) + "|" + str(vacuity)).encode()).hexdigest()[:24]
            cache = os.path.join(verif, "build", "cache", key + ".json")
            r = _verify_locked(g, text, res, key, cache, use_cache, vacuity, extra, tag, out_dir, t0)
            r["assumed_functions"] = {k: reasons.get(k, "") for k in sorted(assume)}
            r["inlined_helpers"] = {k: sorted(v) for k, v in sorted(inline.items()) if k not in assume}
            last = r
            # Verus rejected the text inside one extracted function: assume that function's contract and retry
            new = set()
            retry = False
            this_round = set()
            if r["status"] == "undecided" and r.get("hard_errors"):
                franges = r.get("function_ranges", [])
                for he in r["hard_errors"]:
                    ln = he.get("line")
                    best = None
                    for a_, b_, nm in franges:
                        if ln and a_ <= ln <= b_ and (best is None or (b_ - a_) < (best[1] - best[0])):
                            best = (a_, b_, nm)
                    if best and best[2] in g.fn_keys_with_body and best[2] not in assume:
                        # rule R12: the function calls a same-file helper that has no contract and is not extracted:
                        # inline the helper (once); only if that does not help is the function's contract assumed
                        mm = re.search(r"(?:no method named|cannot find function|no function or associated item named) `(\w+)`",
                                       he.get("message", ""))
                        if mm and (best[2], mm.group(1)) in this_round:
                            continue
                        if mm and (best[2], mm.group(1)) not in inline_tried and _is_file_fn(repo, features, best[2], mm.group(1)):
                            this_round.add((best[2], mm.group(1)))
                            inline_tried.add((best[2], mm.group(1)))
                            inline.setdefault(best[2], set()).add(mm.group(1))
                            retry = True
                            continue
                        new.add(best[2])
                        reasons[best[2]] = "verus rejected the extracted text: %s" % he.get("message", "")[:200]
            if not new and not retry:
                return r
            assume |= new
        return last
    finally:
        fcntl.flock(lock, fcntl.LOCK_UN)
        lock.close()


def _verify_locked(g, text, res, key, cache, use_cache, vacuity, extra, tag, out_dir, t0):
    if use_cache and os.path.exists(cache):
        try:
            r = json.load(open(cache))
            r["cached"] = True
            return r
        except ValueError:
            pass
    path = os.path.join(out_dir, "rsactor_vx%s.rs" % tag)
    open(path, "w").write(text)
    json.dump(g.report, open(os.path.join(out_dir, "extraction_report.json"), "w"), indent=1)
    labels, funcs = index_markers(text)
    lines = text.split("\n")
    variants = make_variants(text) if vacuity else []
    jobs = [("main", path, text)]
    for k, v, n in variants:
        vp = os.path.join(out_dir, "vacuity_%d%s.rs" % (k, tag))
        open(vp, "w").write(v)
        jobs.append(("vac%d" % k, vp, v))
    with ThreadPoolExecutor(max_workers=len(jobs)) as ex:
        outs = list(ex.map(lambda j: run_verus(j[1], extra), jobs))
    main = outs[0]
    failures, hard, undec = classify(main["diags"], labels, funcs, lines)
    vr = main["out"].get("verification-results", {})
    times = main["out"].get("times-ms", {})
    fb = []
    for m in times.get("smt", {}).get("smt-run-module-times", []):
        fb += m.get("function-breakdown", [])
    res.update(
        failures=failures, hard_errors=hard, undecided_msgs=undec,
        verified=vr.get("verified"), errors=vr.get("errors"),
        smt_ms=times.get("smt", {}).get("total"), verus_total_ms=times.get("total"),
        function_breakdown=[{"function": f["function"], "ms": f.get("time"), "rlimit": f.get("rlimit"),
                             "success": f.get("success")} for f in fb],
        labels={str(k): v for k, v in labels.items()},
        label_functions={v: ([nm for a, b, nm in funcs if a <= k <= b] or ["(shim/glue)"])[0] for k, v in labels.items()},
        functions=[nm for _, _, nm in funcs],
        function_ranges=[[a_, b_, nm] for a_, b_, nm in funcs],
        extraction=[{"function": r["function"], "file": r["file"], "rules": r["rules_applied"],
                     "sha": r["source_sha256"]} for r in g.report],
        generated_lines=len(lines), path=path, checker_cmd=" ".join(verus_cmd(path, extra)),
    )
    # vacuity
    vac = {"probes": 0, "failed_as_expected": 0, "vacuous": []}
    for (jname, vp, vtext), o, (k, _v, n) in zip(jobs[1:], outs[1:], variants):
        vlabels, vfuncs = index_markers(vtext)
        vlines = vtext.split("\n")
        vf, vh, vu = classify(o["diags"], vlabels, vfuncs, vlines)
        hit = set(f["line"] for f in vf if f["vacuity_probe"])
        probe_lines = [i + 1 for i, l in enumerate(vlines) if "/*VA*/" in l]
        vac["probes"] += len(probe_lines)
        if vh or o["timeout"] or (o["rc"] not in (0, 1)):
            vac.setdefault("errors", []).append("variant %d: %s" % (k, (vh[:1] or o["stderr"][-300:])))
        for pl in probe_lines:
            if pl in hit:
                vac["failed_as_expected"] += 1
            else:
                fn = None
                for a, b, nm in vfuncs:
                    if a <= pl <= b:
                        fn = nm
                vac["vacuous"].append({"variant": k, "line": pl, "function": fn})
    res["vacuity"] = vac
    if main["timeout"] or hard or undec or (main["rc"] not in (0, 1)) or not vr:
        res["status"] = "undecided"
        res["reason"] = ("verus timeout" if main["timeout"] else
                         "verus rejected the extracted text: %s" % hard[0]["message"] if hard else
                         "solver: %s" % undec[0] if undec else "verus failed: rc=%s %s" % (main["rc"], main["stderr"][-500:]))
    elif failures:
        res["status"] = "fail"
    else:
        res["status"] = "ok"
    res["wall"] = time.time() - t0
    os.makedirs(os.path.dirname(cache), exist_ok=True)
    import uuid
    tmpc = cache + ".%s.tmp" % uuid.uuid4().hex
    json.dump(res, open(tmpc, "w"))
    os.replace(tmpc, cache)
    return res
