import sys, os, json
from .gen import Gen, fs_name, index_markers
from .passes import Unsupported

def main():
    import argparse
    ap = argparse.ArgumentParser()
    ap.add_argument("--repo", default="/repo")
    ap.add_argument("--verif", default=os.path.dirname(os.path.dirname(os.path.abspath(__file__))))
    ap.add_argument("--features", default="")
    ap.add_argument("--out", default=None)
    a = ap.parse_args()
    feats = [f for f in a.features.split(",") if f]
    g = Gen(a.repo, feats, a.verif)
    try:
        text = g.assemble()
    except Unsupported as e:
        print("UNSUPPORTED:", e); sys.exit(2)
    out = a.out or os.path.join(a.verif, "build", fs_name(feats))
    os.makedirs(out, exist_ok=True)
    open(os.path.join(out, "rsactor_vx.rs"), "w").write(text)
    json.dump(g.report, open(os.path.join(out, "extraction_report.json"), "w"), indent=1)
    print("wrote", os.path.join(out, "rsactor_vx.rs"), len(text.splitlines()), "lines")

main()
