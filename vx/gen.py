"""Assemble the Verus input for one feature set from /repo's working tree.

  sources --R1,R2--> items --R3..R10 + contract injection--> build/<fs>/rsactor_vx.rs
"""
import os, re, json, hashlib, difflib
from .lex import Code, apply_edits, OPEN, CLOSE, LexError
from .passes import (Unsupported, strip_comments, resolve_cfg, drop_attrs, parse_items, find_item,
                     norm, Item)
from . import rules as R

ALL_FEATURES = ("tracing", "metrics", "test-utils", "deadlock-detection")
SRC_FILES = ["lib.rs", "actor.rs", "actor_ref.rs", "actor_result.rs", "error.rs", "dead_letter.rs",
             "handler.rs", "actor_control.rs", "metrics/collector.rs", "metrics/snapshot.rs"]


def fs_name(features):
    return "+".join(sorted(features)) if features else "default"


class Source:
    def __init__(self, repo, features):
        self.repo, self.features = repo, frozenset(features)
        self.raw, self.items = {}, {}
        for f in SRC_FILES:
            p = os.path.join(repo, "src", f)
            if not os.path.exists(p):
                raise Unsupported("lost anchor: source file src/%s" % f)
            raw = open(p).read()
            self.raw[f] = raw
            t = drop_attrs(resolve_cfg(strip_comments(raw), self.features))
            self.items[f] = parse_items(t)

    def top(self, f, kind, name=None, header=None):
        return find_item(self.items[f], kind, name, header)

    def impl(self, f, pred):
        for it in self.items[f]:
            if it.kind == "impl" and pred(it.header):
                return it
        raise Unsupported("lost anchor: impl in %s" % f)

    def impl_by(self, f, trait_head=None, trait_text=None, self_ty=None, self_starts=None, exact_dyn=None):
        from .passes import impl_parts
        for it in self.items[f]:
            if it.kind != "impl":
                continue
            p = impl_parts(it.header_raw)
            if trait_head is not None and p["trait_head"] != trait_head:
                continue
            if trait_head is None and trait_text is None and p["trait"] is not None:
                continue
            if trait_text is not None and (p["trait"] is None or norm(p["trait"]) != norm(trait_text)):
                continue
            if self_ty is not None and p["self_ty"] != norm(self_ty):
                continue
            if self_starts is not None and not p["self_ty"].startswith(norm(self_starts)):
                continue
            if exact_dyn is not None and not re.match(r"Box<dyn %s(<|>)" % re.escape(exact_dyn), p["self_ty"]):
                continue
            return it
        raise Unsupported("lost anchor: impl %s for %s in %s" % (trait_head or trait_text, self_ty or self_starts, f))

    def impls(self, f, pred):
        return [it for it in self.items[f] if it.kind == "impl" and pred(it.header)]


# ---------------------------------------------------------------- contract injection
def clause_lines(kind, clauses, indent="        "):
    if not clauses:
        return []
    out = [indent[:-4] + kind]
    for label, props, expr in clauses:
        expr = re.sub(r"\s+", " ", expr).strip()
        out.append("%s%s, /*L:%s*/" % (indent, expr, label))
    return out


def name_return(sig, ret):
    """`-> T [where ..]`  =>  `-> (ret: T) [where ..]`.  Returns (new sig, has_return)."""
    c = Code(sig)
    k = c.find_seq(0, "fn")
    j = k + 2
    if c.t(j) == "<":
        depth = 0
        while True:
            if c.t(j) == "<": depth += 1
            elif c.t(j) == ">":
                depth -= 1
                if depth == 0: break
            j += 1
        j += 1
    cl = c.close(j)
    if c.t(cl + 1) != "->":
        return sig, False
    a = cl + 2
    b = a
    while b < len(c) and c.t(b) != "where":
        if c.t(b) in OPEN: b = c.close(b)
        b += 1
    ty = c.slice(a, b).strip() if b < len(c) else sig[c.pos(a):].strip()
    if ty == "!":
        return sig, False
    end = c.pos(b) if b < len(c) else len(sig)
    return sig[:c.pos(a)] + "(%s: %s) " % (ret, ty) + sig[end:], True


def param_names(sig):
    """names of the parameters of a fn signature, without self/this receivers and without the World parameter"""
    c = Code(sig)
    k = c.find_seq(0, "fn")
    j = k + 2
    if c.t(j) == "<":
        depth = 0
        while True:
            if c.t(j) == "<": depth += 1
            elif c.t(j) == ">":
                depth -= 1
                if depth == 0: break
            j += 1
        j += 1
    if c.t(j) != "(":
        return []
    names = []
    for a, b in R.split_args(c, j):
        toks = [c.t(q) for q in range(a, b)]
        if "self" in toks[:3]:
            continue
        q = a
        if c.t(q) == "mut": q += 1
        nm = c.t(q)
        if c.t(q + 1) == ":" and nm not in ("w", "this"):
            names.append(nm)
    return names


def split_fn(text):
    """(signature text, body text incl. braces | None)"""
    c = Code(text)
    k = c.find_seq(0, "fn")
    j = k
    while j < len(c) and c.t(j) not in ("{", ";"):
        if c.t(j) in ("(", "["): j = c.close(j)
        j += 1
    if c.t(j) == "{":
        return text[:c.pos(j)], text[c.pos(j):]
    return text[:c.pos(j)], None


def inject_loops(body, loops, fname):
    """attach loop contracts.  Loops are addressed `select#N` (generated by rule S) or `loop#N`
    (N-th other loop in textual order)."""
    if body is None:
        return body
    c = Code(body)
    edits = []
    n_other = 0
    for k in range(len(c)):
        x = c.t(k)
        if c.kind(k) != "id" or x not in ("loop", "while", "for"):
            continue
        if x == "for" and c.t(k - 1) in (">", "<", "impl") :
            continue
        # header end = first '{' at depth 0
        j = k + 1
        while c.t(j) != "{":
            if c.t(j) in ("(", "["): j = c.close(j)
            j += 1
        # select marker?
        pre = body[max(0, c.pos(k) - 24):c.pos(k)]
        m = re.search(r"/\*@select#(\d+)\*/\s*$", pre)
        if m:
            key = "select#%s" % m.group(1)
        else:
            n_other += 1
            key = "loop#%d" % n_other
        spec = loops.get(key)
        if not spec:
            continue
        lines = []
        for kind in ("invariant_except_break", "invariant", "ensures"):
            lines += clause_lines(kind, spec.get(kind), indent="            ")
        if spec.get("decreases"):
            lines.append("        decreases %s," % spec["decreases"])
        edits.append((c.pos(j), c.pos(j), "\n" + "\n".join(lines) + "\n        "))
        # vacuity probes: loop body entry, and the statement after the loop
        cl = c.close(j)
        edits.append((c.end(j), c.end(j), " /*V1*/ " + spec.get("body_start", "")))
        after = spec.get("after", "")
        if c.t(cl + 1) not in ("}", ")", ",", ".", "?", ""):
            after = " /*V2*/ " + after
        if after:
            edits.append((c.end(cl), c.end(cl), after))
    return apply_edits(body, edits)


ANYBOX_RE = re.compile(r"Box\s*<\s*dyn\s+Any\s*\+\s*Send\s*>")


def type_spelling(text):
    text = re.sub(r"\bDuration\s*::\s*ZERO\b", "vx_duration_zero()", text)   # associated const outside vstd's specs
    return ANYBOX_RE.sub("AnyBox", text)


def visibility(text):
    """single flat namespace: `pub(crate)`/`pub(super)` -> `pub`; private type/trait items -> `pub`."""
    text = re.sub(r"\bpub\s*\(\s*(crate|super)\s*\)", "pub", text)
    text = re.sub(r"^(\s*)(struct|enum|trait|type|const|static)\b", r"\1pub \2", text)
    c = Code(text)
    k = c.find_seq(0, "struct")
    if k >= 0:
        j = k
        while j < len(c) and c.t(j) not in ("{", ";", "("):
            j += 1
        if c.t(j) == "{":
            cl = c.close(j)
            edits = []
            m = j + 1
            while m < cl:
                if c.kind(m) == "id" and c.t(m + 1) == ":" and c.t(m - 1) in ("{", ",") :
                    edits.append((c.pos(m), c.pos(m), "pub "))
                if c.t(m) in OPEN: m = c.close(m)
                m += 1
            text = apply_edits(text, edits)
    return text


def await_values(text):
    """`x.await` where x is not a call (an identifier bound to a future) -> x.vx_await(w)"""
    def finder(c):
        for k in range(len(c)):
            if c.t(k) == "." and c.t(k + 1) == "await" and c.kind(k - 1) == "id":
                return (c.pos(k), c.end(k + 1), ".vx_await(w)")
        return None
    return R.rewrite(text, finder)


def rule_statics(text, statics):
    """R11: uses of a `static NAME` become calls of its generated accessor; in-body static items go."""
    def finder(c):
        for k in range(len(c)):
            if c.t(k) == "static" and c.kind(k + 1) == "id":
                j = k
                while c.t(j) != ";":
                    if c.t(j) in OPEN: j = c.close(j)
                    j += 1
                return (c.pos(k), c.end(j), "")
            if c.kind(k) == "id" and c.t(k) in statics and c.t(k + 1) == "." and c.t(k - 1) not in ("::", "."):
                return (c.pos(k), c.end(k), "vx_static__%s()" % c.t(k))
        return None
    return R.rewrite(text, finder)


def rule_spawn(text):
    """tokio::spawn(F(args))  ->  vx_tokio_spawn__F(args)   (the task body is deferred, not run inline)"""
    def finder(c):
        for k in range(len(c)):
            if c.seq(k, "tokio", "::", "spawn", "("):
                cl = c.close(k + 3)
                a = k + 4
                # callee path: idents and ::
                j = a
                while c.kind(j) == "id" and c.t(j + 1) == "::":
                    j += 2
                if c.kind(j) != "id" or c.t(j + 1) != "(" or c.close(j + 1) != cl - 1 and not (c.t(cl - 1) == "," and c.close(j + 1) == cl - 2):
                    raise Unsupported("tokio::spawn of something that is not a direct call")
                inner_cl = c.close(j + 1)
                return (c.pos(k), c.end(cl), "vx_tokio_spawn__%s(%s)" % (c.t(j), c.text[c.end(j + 1):c.pos(inner_cl)].strip()))
        return None
    return R.rewrite(text, finder)


def impl_generics(header):
    """`impl<G> Trait for Ty where W` -> {'_impl_generics': G, '_impl_where': W}"""
    c = Code(header)
    k = c.find_seq(0, "impl")
    g = ""
    j = k + 1
    if c.t(j) == "<":
        depth, m = 0, j
        while True:
            if c.t(m) == "<": depth += 1
            elif c.t(m) == ">":
                depth -= 1
                if depth == 0: break
            m += 1
        g = c.slice(j + 1, m).strip()
    wk = c.find_seq(0, "where")
    wtxt = header[c.pos(wk + 1):].strip() if wk >= 0 else ""
    return {"_impl_generics": g, "_impl_where": wtxt.rstrip().rstrip(",")}


class Gen:
    def __init__(self, repo, features, verif_dir):
        self.repo, self.features, self.verif = repo, frozenset(features), verif_dir
        self.src = Source(repo, features)
        import importlib.util
        sp = importlib.util.spec_from_file_location("vx_specs", os.path.join(verif_dir, "contracts", "specs.py"))
        self.specs = importlib.util.module_from_spec(sp)
        sp.loader.exec_module(self.specs)
        self.report = []       # per extracted item: file, name, rules, diff
        self._lift_ctx = None
        self.fn_keys_with_body = set()
        self.assume = set()          # function keys whose contract is assumed (outside the rules / rejected by Verus)
        self.assume_reasons = {}
        self._auto_inline_tried = set()
        self._known_fn_names = None
        self.inline = {}             # function key -> names of same-file helpers without contract to inline (rule R12)
        self.macros = {}
        self.statics = set(self.specs.STATICS)
        for it in self.src.items["actor.rs"]:
            if it.kind == "macro_rules":
                name, params, body = R.parse_macro_rules(it.text)
                self.macros[name] = (params, body)
        self.effectful = set(self.specs.EFFECTFUL)
        # names of the crate's async fns and of its fns returning a boxed / impl future (for the R4 guard)
        self.async_names = set()
        for f, raw in self.src.raw.items():
            t = strip_comments(raw)
            self.async_names |= set(re.findall(r"\basync\s+fn\s+(\w+)", t))
            self.async_names |= set(re.findall(r"\bfn\s+(\w+)\s*(?:<[^{;]*?>)?\s*\([^{;]*?\)\s*->\s*(?:BoxFuture|impl\s+(?:std::future::|core::future::)?Future)", t, re.S))
        self.async_names -= {"new", "from", "clone"}

    # ---- one function
    def fn_text(self, file, item, key, lifted_name=None, self_ty=None):
        """extract one function; if it is outside the rules (or listed in self.assume) fall back to its contract ASSUMED
        (external_body): the properties it serves become undecided, the others stay decidable."""
        if item.body is not None:
            self.fn_keys_with_body.add(key)
        if key in self.assume and item.body is not None:
            return self._fn_text_full(file, item, key, lifted_name, self_ty, assumed=True)
        try:
            return self._fn_text_full(file, item, key, lifted_name, self_ty)
        except Exception as e:   # Unsupported / LexError, or a rule tripping over a shape it was not written for
            if item.body is None:
                raise
            if isinstance(e, Unsupported) and "lost anchor" in str(e) and key not in self._auto_inline_tried:
                # what a contract or a proof hint refers to (a local, a statement) is no longer in this function's text: if the
                # function now calls same-file helpers that have no contract, the text may simply have moved there (rule R12)
                self._auto_inline_tried.add(key)
                cands = self._uncontracted_callees(file, item)
                if cands:
                    prev = set(self.inline.get(key, ()))
                    self.inline[key] = prev | cands
                    try:
                        return self._fn_text_full(file, item, key, lifted_name, self_ty)
                    except Exception as e2:
                        self.inline[key] = prev
                        e = e2
            self.assume.add(key)
            self.assume_reasons[key] = "extraction: %s%s" % ("" if isinstance(e, (Unsupported, LexError)) else "rule failed on this shape: %s: " % type(e).__name__, e)
            return self._fn_text_full(file, item, key, lifted_name, self_ty, assumed=True)

    def _uncontracted_callees(self, file, item):
        """same-file fns (with a body) that this function calls and for which neither a contract (SPECS) nor a shim / glue /
        vocabulary definition exists"""
        from . import inline as I
        if self._known_fn_names is None:
            known = set(k.split("::")[-1] for k in self.specs.SPECS)
            for f in ("shim/prelude.rs", "contracts/glue.rs", "contracts/vocab.rs"):
                known |= set(re.findall(r"\bfn\s+(\w+)", open(os.path.join(self.verif, f)).read()))
            self._known_fn_names = known
        fns = I.file_fns(self.src.items[file])
        c = Code(item.body or "")
        out = set()
        for k in range(len(c)):
            if c.kind(k) == "id" and c.t(k) in fns and c.t(k) != item.name and c.t(k) not in self._known_fn_names \
                    and (c.t(k + 1) == "(" or (c.t(k + 1) == "::" and c.t(k + 2) == "<")) and c.t(k - 1) != "fn":
                out.add(c.t(k))
        return out

    def _fn_text_full(self, file, item, key, lifted_name=None, self_ty=None, assumed=False):
        spec = self.specs.SPECS.get(key, {})
        if callable(spec):
            spec = spec(self.features)
        spec = dict(spec)
        spec.update(self._lift_ctx or {})
        src_text = item.text
        if assumed:
            # keep only the signature: the body is replaced, no rule that could fail is applied to it
            sg, _b = split_fn(src_text)
            src_text_used = sg + "{ }"
            spec = {k: v for k, v in spec.items() if k not in ("loops", "proofs", "raii", "dyn_calls")}
        else:
            src_text_used = src_text
        t = src_text_used
        applied = []

        def ap(name, f, *a):
            nonlocal t
            t2 = f(t, *a)
            if t2 != t:
                applied.append(name)
            t = t2
        inlined = []
        if not assumed and self.inline.get(key):
            from . import inline as I
            items = self.src.items[file]
            owner = I.owner_of(items, item)
            cg = set(re.findall(r"[<,]\s*(\w+)\s*(?=[:,>])", (owner.header_raw if owner else "") + " " + item.sig.split("(")[0]))
            ap("R12-inline", I.rule_inline, set(self.inline[key]), I.file_fns(items), item, owner, cg, inlined)
        ap("R13-H", R.rule_thread_handoff)
        ap("R-spawn", rule_spawn)
        ap("R-path", R.rule_paths)
        if spec.get("record_emit"):
            ap("R3-emit", R.rule_record_emit)
        ap("R3", R.rule_logging)
        ap("R6", R.rule_local_macros, self.macros)
        ap("R-path", R.rule_paths)
        ap("R3", R.rule_logging)      # logging / span macros that a local macro expanded to
        ap("R6-scope", R.rule_task_local_scope)
        ap("R6-get", R.rule_task_local_get)
        ap("R-for", R.rule_for_underscore)
        if "select" in t:
            ap("R5", R.rule_select, spec.get("select_carrier", "actor"))
        if spec.get("dyn_calls"):
            ap("R10-dyn", R.rule_dyn_calls, spec["dyn_calls"])
        ap("R4-lazy", R.rule_lazy_futures, self.async_names)
        ap("R8-T", R.rule_timeout)
        ap("R8-M", R.rule_map_err)
        ap("R8-F", R.rule_fetch_update)
        ap("R8-min", R.rule_min_u128)
        ap("R8-cast", R.rule_dyn_cast)
        ap("R8-filter", R.rule_option_filter)
        ap("R8-map", R.rule_option_map)
        ap("R8-closures", R.rule_no_opaque_closures)
        ap("R4-try", R.rule_async_block_try)
        # framework code must not panic, except where the contract says so (capacity 0 in spawn, the deliberate deadlock panic)
        ap("R8-panic", R.rule_panics, bool(spec.get("no_panic")), spec.get("panics", "forbid"))
        ap("R4-val", await_values)
        ap("R4", R.rule_async)
        ap("R-type", type_spelling)
        ap("R11", rule_statics, self.statics)
        if spec.get("raii"):
            from .raii import rule_raii
            ap("R9", rule_raii, spec["raii"])
        pure = spec.get("pure", False)
        ap("R7-calls", R.rule_world_calls, self.effectful)
        sig, body = split_fn(t)
        # binders: locals a contract must mention (loop-carried variables) are found by what they are initialised from,
        # not by their names: `$name` in clauses / hints is replaced by the identifier found
        if spec.get("binders") and body is not None and not assumed:
            found = {}
            for bn, rx in spec["binders"].items():
                m = re.search(rx, body)
                if not m:
                    raise Unsupported("lost anchor: local `%s` of %s (pattern %s)" % (bn, key, rx))
                found[bn] = m.group(1)
            def bsub(e):
                for bn, nm in found.items():
                    e = e.replace("$" + bn, nm)
                return e
            def bclauses(cl):
                return [(l, p_, bsub(e)) for (l, p_, e) in cl or []]
            spec = dict(spec)
            for kk in ("requires", "ensures"):
                if spec.get(kk): spec[kk] = bclauses(spec[kk])
            if spec.get("loops"):
                spec["loops"] = {lk: {ck: (bclauses(cv) if isinstance(cv, list) else bsub(cv)) for ck, cv in lv.items()} for lk, lv in spec["loops"].items()}
            if spec.get("proofs"):
                spec["proofs"] = [tuple(bsub(x) if i == 1 else x for i, x in enumerate(pr)) for pr in spec["proofs"]]
        if not pure:
            sig2 = R.rule_world_param(sig)
            if sig2 != sig: applied.append("R7-param")
            sig = sig2
        elif body is not None and re.search(r"[(,]\s*w\s*\)", body):
            # a function whose contract says it has no effect now calls something effectful: give the body a private scratch
            # World so that the text stays decidable; its value clauses (e.g. "shares the collector") decide the property
            body = "{ let mut __vx_scratch = vx_scratch_world(); let w = &mut __vx_scratch; " + body[1:]
            applied.append("R7-scratch")
        if lifted_name:
            # R10: lifted trait-impl method -> free function
            sig = self.lift_sig(sig, lifted_name, self_ty, spec)
            body = re.sub(r"\bself\b", "this", body) if body else body
            applied.append("R10")
        ret = spec.get("ret", "r")
        sig, has_ret = name_return(sig, ret)
        # `$1`, `$2` .. in clause expressions = names of the function's (non-self, non-World) parameters
        pnames = param_names(sig)
        def subst(clauses):
            out = []
            for (l, p_, e) in clauses or []:
                for i, nm in enumerate(pnames, 1):
                    e = e.replace("$%d" % i, nm)
                if re.search(r"\$\d", e):
                    raise Unsupported("contract of %s refers to a parameter the function no longer has" % key)
                out.append((l, p_, e))
            return out
        # by-value parameters whose release matters to a contract (the lifecycle's own strong ActorRef): the only by-value use the
        # rules can follow is the explicit `drop(p, w)`.  Moved into another binding, shadowed, or left to an implicit scope-end
        # drop, the release would be invisible in the verified text and a CORRECT function would fail its invariant.
        if body is not None and not assumed:
            for ph in spec.get("explicit_drop_only", []):
                nm = ph
                for i, pn in enumerate(pnames, 1):
                    nm = nm.replace("$%d" % i, pn)
                bc0 = Code(body)
                # the parameter lives until its explicit drop (a move): same-named identifiers after that are other bindings
                end = None
                for q in range(len(bc0)):
                    if bc0.kind(q) == "id" and bc0.t(q) == nm and bc0.t(q - 1) == "(" and bc0.t(q - 2) == "drop":
                        end = q; break
                if end is None:
                    raise Unsupported("the by-value parameter `%s` of %s is never released by an explicit drop: its release cannot be made explicit" % (nm, key))
                for q in range(end):
                    if bc0.kind(q) != "id" or bc0.t(q) != nm:
                        continue
                    prev, nxt = bc0.t(q - 1), bc0.t(q + 1)
                    if prev in ("&", ".", "::") or (prev == "mut" and bc0.t(q - 2) == "&") or nxt in (".", "::"):
                        continue        # borrowed / field / method call
                    if nxt == ":" and prev in ("{", ","):
                        continue        # struct-literal field label
                    if prev == "(" and bc0.t(q - 2) == "drop":
                        continue
                    raise Unsupported("the by-value parameter `%s` of %s is moved, shadowed or released otherwise than by an explicit drop: "
                                      "its release cannot be made explicit" % (nm, key))
        lines = []
        for a in spec.get("attrs", []):
            lines.append(a)
        if assumed:
            lines.append("#[verifier::external_body] /*ASSUMED:%s*/" % key)
        lines.append(sig.rstrip())
        lines += clause_lines("requires", subst(spec.get("requires")))
        lines += clause_lines("ensures", subst(spec.get("ensures")))
        if spec.get("decreases"):
            lines.append("    decreases %s," % spec["decreases"])
        if body is None:
            out = "\n".join(lines) + ";"
        elif assumed:
            out = "\n".join(lines) + "\n{ unimplemented!() }"
        else:
            body = inject_loops(body, spec.get("loops", {}), key)
            body = "{ /*V0*/ " + body[1:]
            # vacuity probe V3: the normal end of the function must be reachable (a function that can only diverge has a
            # vacuous postcondition)
            try:
                from .raii import _block_statements
                bc = Code(body)
                st = _block_statements(bc, 0)
                if st:
                    a, b = st[-1]
                    is_tail = bc.t(b - 1) != ";" and bc.t(a) not in ("return", "let")
                    pos = bc.pos(a) if is_tail else bc.pos(bc.close(0))
                    if bc.t(a) == "return":
                        pos = bc.pos(a)
                    body = body[:pos] + " /*V3*/ " + body[pos:]
            except Unsupported:
                pass
            for pr in spec.get("proofs", []):
                anchor, proof = pr[0], pr[1]
                mode = pr[2] if len(pr) > 2 else "after"
                if isinstance(anchor, (list, tuple)):
                    hit = [a for a in anchor if re.search(a, body)]
                    if not hit:
                        raise Unsupported("lost anchor for proof hint in %s: %r" % (key, anchor))
                    anchor = re.search(hit[0], body).group(0)
                if anchor not in body:
                    raise Unsupported("lost anchor for proof hint in %s: %r" % (key, anchor))
                if mode == "none_branch":
                    # the branch taken when the walk falls off the graph: `None => return false` or `else { return false; }`
                    hint = ("proof { assert(walk(graph@, from, (_vx_i + 1) as nat) is None); "
                            "lemma_no_reach_after_none(graph@, from, to, _vx_i as nat); } return false")
                    rep = ("None => { %s }" % hint) if anchor.startswith("None") else ("else { %s; }" % hint)
                else:
                    rep = {"after": anchor + " " + proof, "before": proof + " " + anchor, "replace": proof}[mode]
                body = body.replace(anchor, rep, 1)
            out = "\n".join(lines) + "\n" + body
        out = re.sub(r"\bpub\s*\(\s*(crate|super)\s*\)", "pub", out)
        out = "/*F:%s*/\n%s\n/*E:%s*/" % (key, out, key)
        self.report.append({
            "function": key, "file": "src/" + file,
            "rules_applied": applied,
            "inlined_helpers": sorted(set(inlined)),
            "source_sha256": hashlib.sha256(src_text.encode()).hexdigest()[:16],
            "diff": "\n".join(difflib.unified_diff(src_text.splitlines(), out.splitlines(),
                                                   "repo:" + key, "verified:" + key, lineterm="", n=0)),
        })
        return out

    def lift_sig(self, sig, lifted_name, self_ty, spec):
        """R10: method signature -> free function signature (`self` -> `this: <self type>`), generics and
        where-clause of the enclosing impl are prepended."""
        ig, iw = spec.get("_impl_generics", ""), spec.get("_impl_where", "")
        c = Code(sig)
        k = c.find_seq(0, "fn")
        edits = []
        j = k + 2
        if c.t(j) == "<":
            depth, m = 0, j
            while True:
                if c.t(m) == "<": depth += 1
                elif c.t(m) == ">":
                    depth -= 1
                    if depth == 0: break
                m += 1
            fg = c.slice(j + 1, m).strip()
            gen = "<%s>" % ", ".join(x for x in (ig, fg) if x)
            edits.append((c.pos(k + 1), c.end(m), lifted_name + gen))
            j = m + 1
        else:
            edits.append((c.pos(k + 1), c.end(k + 1), lifted_name + ("<%s>" % ig if ig else "")))
        if c.seq(j + 1, "&", "self"):
            edits.append((c.pos(j + 1), c.end(j + 2), "this: &%s" % self_ty))
        elif c.seq(j + 1, "&", "mut", "self"):
            # Drop::drop(&mut self) is lifted to a by-value consumer (it is the last use of the value)
            edits.append((c.pos(j + 1), c.end(j + 3), ("mut this: %s" if spec.get("by_value") else "this: &mut %s") % self_ty))
        elif c.t(j + 1) == "self" and c.t(j + 2) == ":":
            edits.append((c.pos(j + 1), c.end(j + 1), "this"))
        elif c.t(j + 1) == "self":
            edits.append((c.pos(j + 1), c.end(j + 1), "this: %s" % self_ty))
        elif c.seq(j + 1, "mut", "self"):
            edits.append((c.pos(j + 1), c.end(j + 2), "mut this: %s" % self_ty))
        s = apply_edits(sig, edits)
        s = re.sub(r"\bSelf\b", self_ty, s)
        # where clause: merge
        if iw:
            if re.search(r"\bwhere\b", s):
                s = re.sub(r"\bwhere\b", "where " + iw.rstrip().rstrip(",") + ",", s, count=1)
            else:
                s = s.rstrip() + "\n    where " + iw + "\n"
        return s

    # ---- types
    def type_text(self, file, item, key):
        spec = self.specs.SPECS.get(key, {})
        t = visibility(type_spelling(R.rule_paths(item.text)))
        attrs = spec.get("attrs", [])
        t = "\n".join(attrs + [t])
        self.report.append({"function": key, "file": "src/" + file, "rules_applied": ["R-path", "R-type"],
                            "source_sha256": hashlib.sha256(item.text.encode()).hexdigest()[:16],
                            "diff": ""})
        return "/*F:%s*/\n%s\n/*E:%s*/" % (key, t, key)

    def impl_text(self, file, impl, names, key_prefix, header=None, extra_members="", lift=None, skip=(), bare=False):
        """an impl (or trait) block restricted to the given member fns (None = all fns).
        `lift`: {method name: (free function name, self type)} -- R10: emitted after the block."""
        hdr = header if header is not None else visibility(type_spelling(R.rule_paths(impl.header_raw)))
        parts = [hdr.rstrip() + " {"]
        lifted = []
        lift = lift or {}
        if extra_members:
            parts.append(extra_members)
        for ch in impl.children:
            if ch.kind == "fn":
                if names is not None and ch.name not in names:
                    continue
                if ch.name in skip:
                    continue
                if names is None and impl.kind == "impl" and ch.body is not None and ("%s::%s" % (key_prefix, ch.name)) not in self.specs.SPECS:
                    from .passes import impl_parts as _ip
                    if _ip(impl.header_raw)["trait"] is None:
                        # an inherent method for which no contract exists (a helper added by a refactoring): it is NOT emitted as a
                        # callable function without contract - a caller could then prove nothing about its result and a correct
                        # caller's obligation would fail.  Callers get it inlined on demand (rule R12) or fall back to assumed.
                        continue
                if ch.name in lift:
                    if ch.body is not None:
                        fname, self_ty = lift[ch.name]
                        self._lift_ctx = impl_generics(visibility(type_spelling(R.rule_paths(impl.header_raw))))
                        if self_ty is None:
                            raise Unsupported("lift without self type")
                        try:
                            lifted.append(self.fn_text(file, ch, "%s::%s" % (key_prefix, ch.name), lifted_name=fname, self_ty=self_ty))
                        finally:
                            self._lift_ctx = None
                    continue
                parts.append(self.fn_text(file, ch, "%s::%s" % (key_prefix, ch.name)))
            elif ch.kind in ("type", "const") and names is None:
                parts.append(R.rule_paths(ch.text))
        if names is not None:
            have = {ch.name for ch in impl.children if ch.kind == "fn"}
            for n in names:
                if n not in have:
                    # the function no longer exists under this name (renamed / merged / removed): nothing to extract; its
                    # contract cannot be checked on this tree -> the properties it serves are undecided, the rest stay decidable
                    k = "%s::%s" % (key_prefix, n)
                    self.assume.add(k)
                    self.assume_reasons[k] = "lost anchor: fn %s no longer exists in %s" % (n, impl.header)
        parts.append("}")
        if bare:
            # only the lifted members are emitted (Clone / From impls for Box<dyn _>, rule R10)
            return "\n".join(lifted)
        return "\n".join(parts + lifted)

    # ---- whole file
    def assemble(self):
        from .plan import build_units
        shim = open(os.path.join(self.verif, "shim", "prelude.rs")).read()
        vocab = open(os.path.join(self.verif, "contracts", "vocab.rs")).read()
        glue = open(os.path.join(self.verif, "contracts", "glue.rs")).read()
        shim = resolve_cfg(shim, self.features)
        vocab = resolve_cfg(vocab, self.features)
        glue = resolve_cfg(glue, self.features)

        def expand(m):
            cl = self.specs.GLUE_CLAUSES[m.group(1)]
            return "\n".join("        %s, /*L:%s@dyn*/" % (re.sub(r"\s+", " ", e).strip(), l) for (l, p, e) in cl)
        glue = re.sub(r"/\*@(\w+)\*/", expand, glue)
        units = build_units(self)
        head = ("// GENERATED by vx from %s (features: %s) -- do not edit\n"
                "#![allow(unused_imports, unused_variables, dead_code, unused_mut, unused_braces, non_snake_case, unused_parens, unreachable_code, unused_assignments)]\n"
                "use vstd::prelude::*;\nuse std::marker::PhantomData;\nuse std::time::Duration;\n"
                "use std::collections::HashMap;\nuse std::sync::Arc;\n"
                "verus! {\n" % (self.repo, fs_name(self.features)))
        body = ["// ======== SHIM (trusted) ========", shim,
                "// ======== CONTRACT VOCABULARY ========", vocab,
                "// ======== TRUSTED GLUE (spawn, statics) ========", glue]
        for name, text in units:
            body.append("// ======== EXTRACTED: %s ========" % name)
            body.append(text)
        tail = "\n} // verus!\nfn main() {}\n"
        return head + "\n".join(body) + tail


def index_markers(text):
    """line maps: label lines, function ranges."""
    labels, funcs = {}, []
    stack = []
    for no, line in enumerate(text.split("\n"), 1):
        for m in re.finditer(r"/\*L:([^*]+)\*/", line):
            labels[no] = m.group(1)
        m = re.search(r"/\*F:([^*]+)\*/", line)
        if m:
            stack.append((m.group(1), no))
        m = re.search(r"/\*E:([^*]+)\*/", line)
        if m and stack:
            nm, st = stack.pop()
            funcs.append((st, no, nm))
    return labels, funcs
