"""Function/item-level extraction rules R3..R10 (see DESIGN.md section 2.2).

Every rule is text -> text and re-lexes; a construct it does not understand raises Unsupported.
"""
import re
from .lex import Code, apply_edits, OPEN, CLOSE
from .passes import Unsupported, stmt_end, norm


def rewrite(text, finder):
    """Apply finder(Code) -> (start, end, replacement) | None repeatedly until it returns None."""
    for _ in range(10000):
        c = Code(text)
        e = finder(c)
        if e is None:
            return text
        text = apply_edits(text, [e])
    raise Unsupported("rewrite did not terminate")


def split_args(c, op):
    """significant-token ranges [(a, b)) of the comma separated arguments inside bracket op."""
    cl = c.close(op)
    parts, start = [], op + 1
    j = op + 1
    ang = 0
    while j < cl:
        x = c.t(j)
        if c.kind(j) == "p":
            if x in OPEN:
                j = c.close(j) + 1; continue
            if x == "|" :
                # closure parameter list:  |a, b| ...   skip to the closing bar
                if c.t(j - 1) in ("(", ",", "=", "move") or j == op + 1:
                    m = j + 1
                    while m < cl and c.t(m) != "|": m += 1
                    j = m + 1; continue
            if x == "<" and (c.t(j - 1) == "::"):
                ang += 1
            elif x == ">" and ang > 0:
                ang -= 1
            elif x == "," and ang == 0:
                parts.append((start, j)); start = j + 1
        j += 1
    if start < cl:
        parts.append((start, cl))
    return parts


# ---------------------------------------------------------------- R-path: module qualification
STRIP_PREFIXES = [
    ("crate",), ("tokio", "sync"), ("tokio", "time"), ("tokio", "task"), ("tokio",), ("tracing",),
    ("std", "sync", "atomic"), ("std", "sync"), ("std", "any"), ("std", "time"), ("std", "collections"),
    ("std", "mem"), ("std", "panic"), ("futures",), ("dead_letter",), ("metrics", "collector"), ("metrics",),
    ("collector",), ("actor",), ("actor_ref",), ("error",), ("super",),
]


def rule_paths(text):
    """All extracted items and the shim share one namespace: drop module qualification."""
    def finder(c):
        for k in range(len(c)):
            if c.kind(k) != "id" or c.t(k - 1) == "::" or c.t(k - 1) == ".":
                continue
            for pre in STRIP_PREFIXES:
                ok = all(c.t(k + 2 * i) == p and c.t(k + 2 * i + 1) == "::" for i, p in enumerate(pre))
                if ok:
                    # `actor` / `error` / `metrics` are also ordinary identifiers: require `::`
                    nxt = k + 2 * len(pre)
                    if c.kind(nxt) not in ("id",) and c.t(nxt) not in ("<", "{"):
                        continue
                    if c.t(nxt) == "{":
                        continue
                    return (c.pos(k), c.pos(nxt), "")
        return None
    return rewrite(text, finder)


# ---------------------------------------------------------------- R3 logging / formatting
LOG_MACROS = {"debug", "info", "warn", "error", "trace"}
SPAN_MACROS = {"debug_span", "info_span", "trace_span", "span", "error_span", "warn_span"}


def rule_logging(text, keep_record_emit=False):
    def finder(c):
        for k in range(len(c)):
            if c.kind(k) == "id" and c.t(k + 1) == "!" and c.t(k + 2) in OPEN and c.t(k - 1) != "::":
                name = c.t(k)
                cl = c.close(k + 2)
                if name in LOG_MACROS:
                    if keep_record_emit:
                        return None
                    prev = c.t(k - 1)
                    if c.t(cl + 1) == ";" and prev in ("{", "}", ";", ""):
                        return (c.pos(k), c.end(cl + 1), "")
                    return (c.pos(k), c.end(cl), "()")
                if name in SPAN_MACROS:
                    return (c.pos(k), c.end(cl), "Span::none()")
                if name == "format":
                    return (c.pos(k), c.end(cl), "vx_opaque_string()")
        return None
    return rewrite(text, finder)


def rule_record_emit(text):
    """R3 exception: the warn! inside dead_letter::record becomes the shim effect call, with the same
    argument expressions (fields `a.b = expr` / `a.b = %expr`, in order; the message literal dropped)."""
    def finder(c):
        for k in range(len(c)):
            if c.t(k) == "warn" and c.t(k + 1) == "!" and c.t(k + 2) == "(":
                args = split_args(c, k + 2)
                exprs = []
                for a, b in args:
                    # find top-level '='
                    eq = None
                    for j in range(a, b):
                        if c.t(j) == "=":
                            eq = j; break
                    if eq is None:
                        continue  # message literal
                    s = eq + 1
                    if c.t(s) in ("%", "?"):
                        s += 1
                    exprs.append(c.slice(s, b).strip())
                if len(exprs) != 5:
                    raise Unsupported("dead_letter::record: warn! has %d structured fields, rule R3 expects 5" % len(exprs))
                cl = c.close(k + 2)
                return (c.pos(k), c.end(cl), "vx_emit_dead_letter(%s)" % ", ".join(exprs))
        return None
    return rewrite(text, finder)


# ---------------------------------------------------------------- R6 local macro_rules
def parse_macro_rules(text):
    """single-arm macro_rules!:  returns (name, [param names], body text without outer braces)."""
    c = Code(text)
    if not c.seq(0, "macro_rules", "!"):
        raise Unsupported("not a macro_rules item")
    name = c.t(2)
    ob = 3
    cb = c.close(ob)
    # arm: ( matcher ) => { body } ;
    if c.t(ob + 1) != "(":
        raise Unsupported("macro %s: matcher form" % name)
    mcl = c.close(ob + 1)
    params = []
    j = ob + 2
    while j < mcl:
        if c.seq(j, "$", "(", "$") and c.seq(j + 4, ":", "tt", ")") and c.t(j + 7) in ("*", "+") and j + 8 == mcl and not params:
            # ($($x:tt)*): the whole argument token stream, transcribed by `$($x)*`
            params.append("*" + c.t(j + 3))
            j += 8
        elif c.t(j) == "$":
            params.append(c.t(j + 1))
            if c.t(j + 2) != ":" or c.t(j + 3) != "expr":
                raise Unsupported("macro %s: only $x:expr parameters are supported" % name)
            j += 4
        elif c.t(j) == ",":
            j += 1
        else:
            raise Unsupported("macro %s: matcher token %r" % (name, c.t(j)))
    if c.t(mcl + 1) != "=>" or c.t(mcl + 2) != "{":
        raise Unsupported("macro %s: transcriber form" % name)
    bcl = c.close(mcl + 2)
    k = bcl + 1
    if c.t(k) == ";": k += 1
    if k != cb:
        raise Unsupported("macro %s: more than one arm" % name)
    body = c.text[c.end(mcl + 2):c.pos(bcl)]
    return name, params, body


def rule_local_macros(text, macros):
    """expand invocations of the given single-arm macro_rules (dict name -> (params, body))."""
    def finder(c):
        for k in range(len(c)):
            if c.kind(k) == "id" and c.t(k) in macros and c.t(k + 1) == "!" and c.t(k + 2) in OPEN:
                params, body = macros[c.t(k)]
                if len(params) == 1 and params[0].startswith("*"):
                    cl = c.close(k + 2)
                    stream = c.text[c.end(k + 2):c.pos(cl)].strip()
                    bc = Code(body)
                    edits = []
                    j = 0
                    while j < len(bc):
                        if bc.t(j) == "$":
                            if not (bc.seq(j, "$", "(", "$", params[0][1:], ")") and bc.t(j + 5) in ("*", "+")):
                                raise Unsupported("macro %s: transcriber uses $%s other than as $($%s)*" % (c.t(k), params[0][1:], params[0][1:]))
                            edits.append((bc.pos(j), bc.end(j + 5), stream))
                            j += 6
                            continue
                        j += 1
                    return (c.pos(k), c.end(cl), apply_edits(body, edits))
                args = split_args(c, k + 2)
                if len(args) != len(params):
                    raise Unsupported("macro %s: arity" % c.t(k))
                amap = {p: c.slice(a, b).strip() for p, (a, b) in zip(params, args)}
                bc = Code(body)
                edits = []
                for j in range(len(bc)):
                    if bc.t(j) == "$":
                        nm = bc.t(j + 1)
                        if nm not in amap:
                            raise Unsupported("macro: unknown $%s" % nm)
                        edits.append((bc.pos(j), bc.end(j + 1), "(" + amap[nm] + ")" if False else amap[nm]))
                exp = apply_edits(body, edits)
                cl = c.close(k + 2)
                return (c.pos(k), c.end(cl), exp)
        return None
    return rewrite(text, finder)


def rule_task_local_get(text):
    """R6b: `CURRENT_ACTOR.try_with(|id| *id)` (copy the task-local out) -> vx_task_local_get(w)"""
    def finder(c):
        for k in range(len(c)):
            if c.seq(k, "CURRENT_ACTOR", ".", "try_with", "("):
                cl = c.close(k + 3)
                inner = norm(c.slice(k + 4, cl))
                if not re.match(r"^\|(\w+)\|\*\1$", inner.replace(" ", "")):
                    raise Unsupported("CURRENT_ACTOR.try_with with a closure other than |id| *id")
                return (c.pos(k), c.end(cl), "vx_task_local_get(w)")
        return None
    return rewrite(text, finder)


def rule_for_underscore(text):
    """`for _ in a..b` -> `for _vx_i in a..b` (Verus wants a named loop variable for invariants)"""
    def finder(c):
        for k in range(len(c)):
            if c.seq(k, "for", "_", "in"):
                return (c.pos(k + 1), c.end(k + 1), "_vx_i")
        return None
    return rewrite(text, finder)


def rule_task_local_scope(text):
    """R6: CURRENT_ACTOR.scope(id, E)[.await]  ->  { w.scope_enter(id); let __r = E; w.scope_exit(); __r }"""
    def finder(c):
        for k in range(len(c)):
            if c.seq(k, "CURRENT_ACTOR", ".", "scope", "("):
                args = split_args(c, k + 3)
                if len(args) != 2:
                    raise Unsupported("CURRENT_ACTOR.scope arity")
                idx = c.slice(*args[0]).strip()
                ex = c.slice(*args[1]).strip()
                cl = c.close(k + 3)
                e = cl
                if c.seq(cl + 1, ".", "await"):
                    e = cl + 2
                return (c.pos(k), c.end(e),
                        "{ vx_scope_enter(%s, w); let __scope_r = %s; vx_scope_exit(w); __scope_r }" % (idx, ex))
        return None
    return rewrite(text, finder)


# ---------------------------------------------------------------- R5 select!
# innermost awaited call of a branch expression -> (poll method, source-label expression builder)
SELECT_POLL_FORMS = {
    "recv": ("poll_recv", lambda recv: "%s.src()" % recv),
    "on_run": ("poll_on_run", lambda recv: "Src::Idle"),
}


def _find_branch_call(c, a, b):
    """in sig range [a,b) find the call `X.m(` with m in SELECT_POLL_FORMS; returns (k of m, receiver text)."""
    for k in range(a, b):
        if c.kind(k) == "id" and c.t(k) in SELECT_POLL_FORMS and c.t(k - 1) == "." and c.t(k + 1) == "(":
            # receiver: walk back over a simple path  a.b.c
            r = k - 2
            while r - 2 >= a and c.t(r - 1) == "." and c.kind(r - 2) == "id":
                r -= 2
            return k, c.slice(r, k - 1).strip()
    return None, None


def rule_select(text, carrier):
    """R5 / rule S.  `carrier` is the variable whose ghost monitor receives Poll/Fired events."""
    counter = [0]

    def finder(c):
        for k in range(len(c)):
            if c.seq(k, "select", "!") and c.t(k + 2) == "{":
                ob = k + 2
                cb = c.close(ob)
                j = ob + 1
                biased = False
                if c.seq(j, "biased", ";"):
                    biased = True; j += 2
                branches = []
                while j < cb:
                    # pattern = expr [, if guard] => handler [,]
                    eq = j
                    while eq < cb and c.t(eq) != "=":
                        if c.t(eq) in OPEN: eq = c.close(eq)
                        eq += 1
                    if eq >= cb: raise Unsupported("select!: branch without '='")
                    pat = c.slice(j, eq).strip()
                    arrow = eq + 1
                    guard_at = None
                    while arrow < cb and c.t(arrow) != "=>":
                        if c.t(arrow) in OPEN: arrow = c.close(arrow)
                        elif c.t(arrow) == "," and c.t(arrow + 1) == "if":
                            guard_at = arrow
                        arrow += 1
                    if arrow >= cb: raise Unsupported("select!: branch without '=>'")
                    if guard_at is not None:
                        expr = (eq + 1, guard_at)
                        guard = c.slice(guard_at + 2, arrow).strip()
                    else:
                        expr = (eq + 1, arrow)
                        guard = None
                    h = arrow + 1
                    if c.t(h) == "{":
                        he = c.close(h) + 1
                        handler = c.text[c.pos(h):c.end(he - 1)]
                        if c.t(he) == ",": he += 1
                    else:
                        he = h
                        while he < cb and c.t(he) != ",":
                            if c.t(he) in OPEN: he = c.close(he)
                            he += 1
                        handler = "{ " + c.slice(h, he).strip() + " }"
                        if he < cb: he += 1
                    if pat == "else":
                        raise Unsupported("select!: else branch")
                    branches.append((pat, expr, guard, handler))
                    j = he
                n = len(branches)
                if not 1 <= n <= 4:
                    raise Unsupported("select!: %d branches" % n)
                counter[0] += 1
                sid = counter[0]
                out_ty = "Out%d" % n
                lines = ["{ // ---- rule S: tokio::select! #%d (%s) ----" % (sid, "biased" if biased else "random start")]
                polls = []
                for i, (pat, (ea, eb), guard, handler) in enumerate(branches):
                    mk, recv = _find_branch_call(c, ea, eb)
                    if mk is None:
                        raise Unsupported("select!: branch %d expression %r has no known poll form" % (i, c.slice(ea, eb).strip()))
                    pollm, srcf = SELECT_POLL_FORMS[c.t(mk)]
                    src = srcf(recv)
                    pexpr = c.text[c.pos(ea):c.pos(mk)] + pollm + c.text[c.end(mk):c.pos(eb)]
                    pexpr = pexpr.strip()
                    g = "__sel%d_g%d" % (sid, i)
                    lines.append("let %s: bool = %s;" % (g, guard if guard is not None else "true"))
                    body = ("vx_note(&mut %s, Ghost(Ev::Poll(%s))); "
                            "if let Poll::Ready(__v) = %s { vx_note(&mut %s, Ghost(Ev::Fired(%s, vx_obs(&__v)))); __sel%d_out = %s::B%d(__v); break; }"
                            % (carrier, src, pexpr, carrier, src, sid, out_ty, i))
                    polls.append("if %s { %s }" % (g, body))
                lines.append("let __sel%d_out;" % sid)
                if not biased:
                    lines.append("let __sel%d_start: usize = vx_random_start(%d);" % (sid, n))
                lines.append("/*@select#%d*/ loop {" % sid)
                if biased:
                    lines.extend("    " + p for p in polls)
                else:
                    for s in range(n):
                        lines.append("    if __sel%d_start == %d {" % (sid, s))
                        for i in range(n):
                            lines.append("        " + polls[(s + i) % n])
                        lines.append("    }")
                lines.append("    vx_yield_now(w);")
                lines.append("}")
                lines.append("match __sel%d_out {" % sid)
                for i, (pat, _e, _g, handler) in enumerate(branches):
                    lines.append("%s::B%d(%s) => %s" % (out_ty, i, pat, handler))
                lines.append("} }")
                # the macro invocation may be followed by ';'? (statement position) keep as is
                return (c.pos(k), c.end(cb), "\n".join(lines))
        return None
    return rewrite(text, finder)


# ---------------------------------------------------------------- R8 combinators, timeout, panics
def _method_call_receiver_start(c, dot):
    """given sig index of '.', return sig index where the receiver expression starts (postfix chain)."""
    j = dot - 1
    while True:
        x = c.t(j)
        if x in CLOSE:
            j = c.close(j)  # jump to opener
            # call or index: preceded by ident / path / generic args
            p = j - 1
            if c.t(p) == ">" :
                # turbofish  ::<..>
                depth = 0
                while p >= 0:
                    if c.t(p) == ">": depth += 1
                    elif c.t(p) == "<":
                        depth -= 1
                        if depth == 0: break
                    p -= 1
                p -= 1
                if c.t(p) == "::": p -= 1
            if c.kind(p) == "id" and c.t(j) == "(":
                j = p
            elif c.t(j) == "{" :
                # block expression possibly preceded by `match x` -- treat block start as receiver start
                q = j - 1
                # look for `match`/`if` keyword starting this block expression
                m = q
                while m >= 0 and c.t(m) not in (";", "{", "}", "=", "(", ",", "match", "if"):
                    m -= 1
                if m >= 0 and c.t(m) in ("match", "if"):
                    return m
                return j
            else:
                return j
        if c.kind(j) in ("id", "num", "str"):
            # path prefix  a::b::c  or field chain handled by loop below
            while c.t(j - 1) == "::" and c.kind(j - 2) == "id":
                j -= 2
            if c.t(j - 1) == "." :
                j -= 2
                continue
            if c.t(j - 1) in ("&", "*", "!") and c.t(j - 2) in ("=", "(", ",", "{", ";", "return", "=>"):
                return j - 1
            return j
        if x == "?":
            j -= 1
            continue
        raise Unsupported("cannot find receiver start near %r" % c.slice(max(0, j - 3), dot))


def rule_timeout(text):
    """rule T:  timeout(d, E)[.await]  ->  { let ghost l0 = w.log(); let inner = E; vx_timeout_resolve(d, inner, Ghost(l0), w) }"""
    def finder(c):
        for k in range(len(c)):
            if c.t(k) == "timeout" and c.t(k + 1) == "(" and c.t(k - 1) not in (".", "fn", "::", "let") \
                    and (c.kind(k - 1) != "id" or c.t(k - 1) in ("match", "return", "if", "else", "in", "while", "break")):
                args = split_args(c, k + 1)
                if len(args) != 2:
                    continue
                d = c.slice(*args[0]).strip()
                ex = c.slice(*args[1]).strip()
                cl = c.close(k + 1)
                e = cl
                if c.seq(cl + 1, ".", "await"):
                    e = cl + 2
                return (c.pos(k), c.end(e),
                        "{ let ghost __l0 = w.log(); let __inner = %s; vx_timeout_resolve(%s, __inner, Ghost(__l0), w) }" % (ex, d))
        return None
    return rewrite(text, finder)


def rule_map_err(text):
    """rule M:  X.map_err(|p| B)  ->  match X { Ok(__v) => Ok(__v), Err(p) => Err(B) }"""
    def finder(c):
        for k in range(len(c)):
            if c.seq(k, ".", "map_err", "(") and c.t(k + 3) == "|":
                cl = c.close(k + 2)
                bar2 = k + 4
                while c.t(bar2) != "|": bar2 += 1
                pat = c.slice(k + 4, bar2).strip()
                body = c.text[c.pos(bar2 + 1):c.pos(cl)].strip()
                rs = _method_call_receiver_start(c, k)
                recv = c.text[c.pos(rs):c.pos(k)].strip()
                return (c.pos(rs), c.end(cl),
                        "(match %s { Ok(__v) => Ok(__v), Err(%s) => Err(%s) })" % (recv, pat, body))
        return None
    return rewrite(text, finder)


def rule_option_map(text):
    """X.map(|p| B) -> match X { Some(p) => Some(B), None => None }   (Option only in this code base);
    X.map(F) with F a path (a fn or a tuple-struct constructor) -> match X { Some(__m) => Some(F(__m)), None => None }"""
    def finder(c):
        for k in range(len(c)):
            if c.seq(k, ".", "map", "(") and c.t(k + 3) != "|" and c.kind(k + 3) == "id":
                cl = c.close(k + 2)
                f = c.slice(k + 3, cl).strip()
                if re.match(r"^[A-Za-z_][A-Za-z0-9_]*(\s*::\s*[A-Za-z_][A-Za-z0-9_]*)*$", f):
                    rs = _method_call_receiver_start(c, k)
                    recv = c.text[c.pos(rs):c.pos(k)].strip()
                    return (c.pos(rs), c.end(cl), "(match %s { Some(__m) => Some(%s(__m)), None => None })" % (recv, f))
            if c.seq(k, ".", "map", "(") and c.t(k + 3) == "|":
                cl = c.close(k + 2)
                bar2 = k + 4
                while c.t(bar2) != "|": bar2 += 1
                pat = c.slice(k + 4, bar2).strip()
                body = c.text[c.pos(bar2 + 1):c.pos(cl)].strip()
                rs = _method_call_receiver_start(c, k)
                recv = c.text[c.pos(rs):c.pos(k)].strip()
                return (c.pos(rs), c.end(cl),
                        "(match %s { Some(%s) => Some(%s), None => None })" % (recv, pat, body))
        return None
    return rewrite(text, finder)


def rule_panics(text, no_panic=False, policy="allow"):
    """policy for panic!/assert!/unreachable!/todo! sites:  "allow" | "forbid" | ("except", marker): forbidden unless the
    enclosing block mentions `marker` (the deliberate deadlock panic of ask sits next to format_cycle_path)"""
    def forbidden(c, k):
        if no_panic or policy == "forbid":
            return True
        if isinstance(policy, (tuple, list)) and policy[0] == "except":
            ob = c.enclosing_open(k)
            blk = c.text[c.pos(ob):c.end(c.close(ob))] if ob >= 0 else c.text
            return policy[1] not in blk
        return False
    """panic!(..) -> vx_panic_site(w);  assert!(c, ..) -> if !(c) { vx_panic_site(w) };
    X.lock().unwrap() -> vx_unwrap_lock(X.lock(), w)"""
    def finder(c):
        for k in range(len(c)):
            if c.kind(k) == "id" and c.t(k + 1) == "!" and c.t(k + 2) in OPEN and c.t(k - 1) != "::":
                cl = c.close(k + 2)
                if c.t(k) in ("panic", "unreachable", "unimplemented", "todo"):
                    return (c.pos(k), c.end(cl), "vx_forbidden_panic(w)" if forbidden(c, k) else "vx_panic_site(w)")
                if c.t(k) in ("assert", "debug_assert"):
                    args = split_args(c, k + 2)
                    cond = c.slice(*args[0]).strip()
                    return (c.pos(k), c.end(cl), "if !(%s) { %s(w) }" % (cond, "vx_forbidden_panic" if forbidden(c, k) else "vx_panic_site"))
            if c.seq(k, ".", "lock", "(", ")", ".", "unwrap", "(", ")"):
                rs = _method_call_receiver_start(c, k)
                recv = c.text[c.pos(rs):c.pos(k)].strip()
                return (c.pos(rs), c.end(k + 7), "%s(%s.lock(), w)" % ("vx_unwrap_lock_nopanic" if no_panic else "vx_unwrap_lock", recv))
            if no_panic and c.seq(k, ".", "unwrap", "(", ")"):
                raise Unsupported("unwrap() inside a Drop body that must not panic: no rule")
        return None
    return rewrite(text, finder)


# ---------------------------------------------------------------- R4 async erasure
def rule_async(text):
    def finder(c):
        for k in range(len(c)):
            x = c.t(k)
            if x == "async":
                if c.t(k + 1) == "move" and c.t(k + 2) == "{":
                    return (c.pos(k), c.pos(k + 2), "")
                if c.t(k + 1) == "{":
                    return (c.pos(k), c.pos(k + 1), "")
                if c.t(k + 1) in ("fn", "unsafe"):
                    return (c.pos(k), c.pos(k + 1), "")
                raise Unsupported("async in unexpected position")
            if x == "." and c.t(k + 1) == "await":
                return (c.pos(k), c.end(k + 1), "")
            if x == "." and c.seq(k + 1, "boxed", "(", ")"):
                return (c.pos(k), c.end(k + 3), "")
            if x == "BoxFuture" and c.t(k + 1) == "<" and c.t(k - 1) == "->":
                # BoxFuture<'_, X>  ->  X
                depth, j = 0, k + 1
                while True:
                    if c.t(j) == "<": depth += 1
                    elif c.t(j) == ">":
                        depth -= 1
                        if depth == 0: break
                    j += 1
                if c.kind(k + 2) != "life" or c.t(k + 3) != ",":
                    raise Unsupported("BoxFuture without lifetime")
                inner = c.slice(k + 4, j).strip()
                return (c.pos(k), c.end(j), inner)
        return None
    return rewrite(text, finder)


def rule_no_opaque_closures(text):
    """Soundness guard of the unfolding rules (R8).  A closure that survives them is opaque to the verifier: whatever combinator
    it is passed to (`map_or`, `and_then`, `unwrap_or_else`, `then`, ..) yields a value about which nothing is known, and a CORRECT
    function would then fail its postcondition.  Such text is outside the rules (contract assumed, property undecided) - except
    under `catch_unwind(AssertUnwindSafe(..))`, whose precondition is unsatisfiable by design, and as the initialiser of
    `OnceLock::get_or_init`, whose shim contract does not depend on the value."""
    c = Code(text)
    for k in range(len(c)):
        if c.kind(k) != "p" or c.t(k) not in ("|", "||"):
            continue
        prev = c.t(k - 1)
        if prev in ("(", ",", "=", "move", "return", "{", ";", "=>") or (prev == "" and k == 0):
            eo = c.enclosing_open(k)
            if eo >= 0 and c.t(eo) == "(" and c.t(eo - 1) in ("AssertUnwindSafe", "catch_unwind", "get_or_init"):
                # get_or_init: the shim states what matters whatever the closure computes - the read WRITES the cell
                continue
            raise Unsupported("a closure remains after the unfolding rules (its effect on the value it is passed to is opaque): %s"
                              % c.text[c.pos(k):c.pos(k) + 40].replace("\n", " "))
    return text


def rule_lazy_futures(text, async_names):
    """Soundness guard of rule R4.  R4 erases `.await`: a call of an async fn is read as running to completion where it is
    written.  That is only what the code does if the future is consumed on the spot: `f(..).await`, `f(..).instrument(..)`
    (awaited by what encloses it), `f(..).boxed()` (this function's own result, awaited by ITS caller), or directly the
    future argument of `timeout(d, f(..))` (rule T).  A future that is bound to a variable, stored, or passed to another
    function runs later (or never, or under somebody else's deadline): outside the rules."""
    c = Code(text)
    for k in range(len(c)):
        if c.kind(k) != "id" or c.t(k) not in async_names or c.t(k - 1) == "fn":
            continue
        j = k + 1
        if c.t(j) == "::" and c.t(j + 1) == "<":
            depth, j = 0, j + 1
            while j < len(c):
                if c.t(j) == "<": depth += 1
                elif c.t(j) == ">":
                    depth -= 1
                    if depth == 0: break
                j += 1
            j += 1
        if c.t(j) != "(":
            continue
        cl = c.close(j)
        n = cl + 1
        while c.t(n) == "." and c.t(n + 1) == "instrument" and c.t(n + 2) == "(":
            n = c.close(n + 2) + 1
        if c.t(n) == "." and c.t(n + 1) in ("await", "boxed"):
            continue
        # start of the whole call expression (receiver / path included)
        s0 = k
        while c.t(s0 - 1) in (".", "::") or (c.t(s0 - 1) == ">" and False):
            s0 -= 2
            if c.t(s0) == ")":          # receiver is itself a call: f().g()
                s0 = c.close(s0)
                while c.kind(s0 - 1) == "id" or c.t(s0 - 1) in (".", "::"):
                    s0 -= 1
        while c.t(s0 - 1) in ("&", "*", "mut"):
            s0 -= 1
        if c.t(s0 - 1) == "=" and c.t(s0 - 2) == "__scope_r":
            continue   # generated by rule R6-scope from `CURRENT_ACTOR.scope(id, FUT).await`
        eo = c.enclosing_open(s0)
        if eo >= 0 and c.t(eo) == "(" and c.t(eo - 1) == "timeout":
            args = split_args(c, eo)
            if len(args) == 2 and args[1][0] == s0:
                continue
        if eo >= 0 and c.t(eo) == "{" and c.t(n) == "}" and n == c.close(eo):
            # the value of a block that is itself consumed on the spot: `{ f(..) }.await` / `async { f(..).await }`-like wrappers
            m = n + 1
            while c.t(m) == "." and c.t(m + 1) == "instrument" and c.t(m + 2) == "(":
                m = c.close(m + 2) + 1
            if c.t(m) == "." and c.t(m + 1) in ("await", "boxed"):
                continue
        raise Unsupported("future of `%s(..)` is not consumed where it is created (bound, stored or passed on): outside rule R4" % c.t(k))
    return text


# ---------------------------------------------------------------- R7 effect parameter
def rule_world_calls(text, effectful):
    """append `w` to the argument list of every call whose callee name is in `effectful`."""
    c = Code(text)
    edits = []
    qualified = {tuple(e.split("::")) for e in effectful if "::" in e}
    for k in range(len(c)):
        is_q = c.kind(k) == "id" and c.t(k - 1) == "::" and (c.t(k - 2), c.t(k)) in qualified
        if c.kind(k) == "id" and (c.t(k) in effectful or is_q) and c.t(k - 1) != "fn":
            j = k + 1
            # turbofish
            if c.t(j) == "::" and c.t(j + 1) == "<":
                depth, j = 0, j + 1
                while True:
                    if c.t(j) == "<": depth += 1
                    elif c.t(j) == ">":
                        depth -= 1
                        if depth == 0: break
                    j += 1
                j += 1
            if c.t(j) != "(":
                continue
            if c.t(k + 1) == "!":
                continue
            cl = c.close(j)
            if c.t(k) in ("get", "set") and c.t(k - 1) == "." and not (
                    (c.t(k) == "get" and cl == j + 1) or (c.t(k) == "set" and "vx_static__" in c.text[max(0, c.pos(k) - 120):c.pos(k)])):
                continue   # HashMap::get(&k) etc.: only OnceLock::get() / static.set(v) are effectful
            # already threaded?
            if c.t(cl - 1) == "w" and c.t(cl - 2) in (",", "("):
                continue
            empty = (cl == j + 1)
            trailing_comma = c.t(cl - 1) == ","
            ins = "w" if (empty or trailing_comma) else ", w"
            edits.append((c.pos(cl), c.pos(cl), ins))
    return apply_edits(text, edits)


def rule_world_param(sig_text):
    """add `w: &mut World` as last parameter of a fn signature text (from `fn` to before body)."""
    c = Code(sig_text)
    k = c.find_seq(0, "fn")
    if k < 0:
        raise Unsupported("no fn in signature")
    j = k + 2
    if c.t(j) == "<":
        depth = 0
        while True:
            if c.t(j) == "<": depth += 1
            elif c.t(j) == ">":
                depth -= 1
                if depth == 0: break
            j += 1
        j += 1
    if c.t(j) != "(":
        raise Unsupported("fn signature shape")
    cl = c.close(j)
    empty = (cl == j + 1)
    trailing = c.t(cl - 1) == ","
    ins = "w: &mut World" if (empty or trailing) else ", w: &mut World"
    return apply_edits(sig_text, [(c.pos(cl), c.pos(cl), ins)])


# ---------------------------------------------------------------- R10 dyn dispatch of lifted trait methods
def rule_dyn_calls(text, table):
    """recv.m(args) -> table[m](recv, args)   for method names in `table` (receiver is a trait object)."""
    def finder(c):
        for k in range(len(c)):
            if c.t(k) == "." and c.kind(k + 1) == "id" and c.t(k + 1) in table and c.t(k + 2) == "(":
                rs = _method_call_receiver_start(c, k)
                recv = c.text[c.pos(rs):c.pos(k)].strip()
                cl = c.close(k + 2)
                args = c.text[c.end(k + 2):c.pos(cl)].strip()
                sep = ", " if args else ""
                return (c.pos(rs), c.end(cl), "%s(%s%s%s)" % (table[c.t(k + 1)], recv, sep, args))
        return None
    return rewrite(text, finder)


def rule_dyn_cast(text):
    """`E as Box<dyn Tr>`  ->  `{ let __c: Box<dyn Tr> = E; __c }`   (Verus takes the implicit unsizing coercion only)"""
    def finder(c):
        for k in range(len(c)):
            if c.t(k) == "as" and c.kind(k) == "id" and c.seq(k + 1, "Box", "<", "dyn"):
                depth, j = 0, k + 2
                while True:
                    if c.t(j) == "<": depth += 1
                    elif c.t(j) == ">":
                        depth -= 1
                        if depth == 0: break
                    j += 1
                ty = c.slice(k + 1, j + 1).strip()
                rs = _method_call_receiver_start(c, k)
                ex = c.text[c.pos(rs):c.pos(k)].strip()
                return (c.pos(rs), c.end(j), "{ let __c: %s = %s; __c }" % (ty, ex))
        return None
    return rewrite(text, finder)


def rule_fetch_update(text):
    """R8-F: X.fetch_update(o1, o2, |p| B)  ->  { let p = X.vx_rmw_load(w); let __upd = B; X.vx_rmw_commit(p, __upd, w) }
    (an atomic read-modify-write: the CAS retry loop is the library's, A10)"""
    def finder(c):
        for k in range(len(c)):
            if c.seq(k, ".", "fetch_update", "("):
                args = split_args(c, k + 2)
                if len(args) != 3 or c.t(args[2][0]) != "|":
                    raise Unsupported("fetch_update: expected (ordering, ordering, closure)")
                a, b = args[2]
                bar2 = a + 1
                while c.t(bar2) != "|": bar2 += 1
                pat = c.slice(a + 1, bar2).strip()
                body = c.text[c.pos(bar2 + 1):c.pos(b)].strip().rstrip(",")
                rs = _method_call_receiver_start(c, k)
                recv = c.text[c.pos(rs):c.pos(k)].strip()
                cl = c.close(k + 2)
                return (c.pos(rs), c.end(cl),
                        "{ let %s = %s.vx_rmw_load(w); let __upd = %s; %s.vx_rmw_commit(%s, __upd, w) }" % (pat, recv, body, recv, pat))
        return None
    return rewrite(text, finder)


def rule_min_u128(text):
    """`X.min(u64::MAX as u128)` on a u128 (Ord::min is outside Verus' std specs) -> vx_min_u128(X, u64::MAX as u128)"""
    def finder(c):
        for k in range(len(c)):
            if c.seq(k, ".", "min", "("):
                cl = c.close(k + 2)
                arg = c.slice(k + 3, cl).strip()
                if "u128" not in arg:
                    continue
                rs = _method_call_receiver_start(c, k)
                recv = c.text[c.pos(rs):c.pos(k)].strip()
                return (c.pos(rs), c.end(cl), "vx_min_u128(%s, %s)" % (recv, arg))
        return None
    return rewrite(text, finder)


def rule_option_filter(text):
    """X.filter(F)  ->  match X { Some(__f) => if F(&__f) { Some(__f) } else { None }, None => None }
    (definition of Option::filter; F a path to a fn or a closure |p| B)"""
    def finder(c):
        for k in range(len(c)):
            if c.seq(k, ".", "filter", "("):
                cl = c.close(k + 2)
                rs = _method_call_receiver_start(c, k)
                recv = c.text[c.pos(rs):c.pos(k)].strip()
                if c.t(k + 3) == "|":
                    bar2 = k + 4
                    while c.t(bar2) != "|": bar2 += 1
                    pat = c.slice(k + 4, bar2).strip()
                    body = c.text[c.pos(bar2 + 1):c.pos(cl)].strip()
                    cond = "{ let %s = &__f; %s }" % (pat, body)
                else:
                    cond = "%s(&__f)" % c.slice(k + 3, cl).strip()
                return (c.pos(rs), c.end(cl),
                        "(match %s { Some(__f) => if %s { Some(__f) } else { None }, None => None })" % (recv, cond))
        return None
    return rewrite(text, finder)


# ---------------------------------------------------------------- R13 rule H: synchronous thread hand-off
def rule_thread_handoff(text):
    """rule H.  The blocking timeout variants run their operation on a helper thread and wait for its result:

        let (TX, RX) = std::sync::mpsc::channel();
        std::thread::spawn(move || { BODY });        // BODY ends by sending on TX
        RX.recv()...                                  // the tail of the function

    The caller does nothing between spawning the helper and blocking in `RX.recv()`, and `recv` returns only after the helper
    has sent (or died), so every effect of BODY is ordered before the caller's return and nothing of the caller runs
    concurrently with it: the hand-off is sequential.  The closure body is therefore read where it is written, bracketed by
    `vx_thread_enter(w)` / `vx_thread_exit(__t, w)` (a fresh OS thread: no ambient runtime, no task-local actor identity),
    and the std channel becomes the one-shot slot of the shim (`vx_std_channel`, send consumes the sender).
    Anything else - the JoinHandle kept, a non-`move` closure, `return` / `?` at closure level, statements between the spawn
    and the `recv`, the sender used outside the closure - is outside the rule (undecided)."""
    if "thread" not in text:
        return text
    c = Code(text)
    k = c.find_seq(0, "std", "::", "thread", "::", "spawn", "(")
    if k < 0:
        k2 = c.find_seq(0, "thread", "::", "spawn", "(")
        if k2 >= 0:
            raise Unsupported("thread::spawn not spelled std::thread::spawn: outside rule H")
        return text
    if c.find_seq(k + 1, "std", "::", "thread", "::", "spawn", "(") >= 0:
        raise Unsupported("more than one helper thread: outside rule H")
    op = k + 5
    cl = c.close(op)
    if c.t(k - 1) not in (";", "{", "}") or c.t(cl + 1) != ";":
        raise Unsupported("the helper thread's JoinHandle is used: outside rule H")
    if not (c.seq(op + 1, "move", "||", "{") or c.seq(op + 1, "move", "|", "|", "{")):
        raise Unsupported("helper thread closure is not `move || { .. }`: outside rule H")
    bo = op + 1
    while c.t(bo) != "{": bo += 1
    bc = c.close(bo)
    if bc != cl - 1:
        raise Unsupported("helper thread closure has something after its block: outside rule H")
    # the channel: let (TX, RX) = std::sync::mpsc::channel();
    ch = c.find_seq(0, "std", "::", "sync", "::", "mpsc", "::", "channel", "(", ")")
    if ch < 0 or ch > k or not (c.t(ch - 1) == "=" and c.t(ch - 2) == ")" and c.t(ch - 4) == "," and c.t(ch - 6) == "(" and c.t(ch - 7) == "let"):
        raise Unsupported("helper thread without `let (tx, rx) = std::sync::mpsc::channel();` before it: outside rule H")
    if c.find_seq(ch + 1, "std", "::", "sync", "::", "mpsc", "::", "channel") >= 0:
        raise Unsupported("more than one std channel: outside rule H")
    tx, rx = c.t(ch - 5), c.t(ch - 3)
    # closure level: no return, no `?` outside nested async blocks / closures
    j = bo + 1
    sends = 0
    while j < bc:
        x = c.t(j)
        if x == "async":
            m = j + 1
            if c.t(m) == "move": m += 1
            if c.t(m) == "{":
                j = c.close(m) + 1; continue
        if x == "return" or (x == "?" and c.kind(j) == "p"):
            raise Unsupported("`return` / `?` at the level of the helper thread's closure: outside rule H")
        if x in ("|", "||") and c.t(j - 1) in ("(", ",", "=", "move"):
            pass
        if x == tx and c.seq(j + 1, ".", "send", "("):
            sends += 1
        j += 1
    # the sender lives in the closure only; the receiver is used exactly once, right after the spawn, as `RX.recv()`
    for j in range(len(c)):
        if c.t(j) == tx and c.kind(j) == "id" and not (bo < j < bc) and j != ch - 5:
            raise Unsupported("the hand-off sender is used outside the helper thread: outside rule H")
    # the receiver is used exactly once: `RX.recv()` opens the statement right after the spawn, possibly behind `match` / `let PAT =`
    # (tokens that call nothing), so that nothing of the caller runs between spawning the helper and blocking on it
    uses = [j for j in range(len(c)) if c.t(j) == rx and c.kind(j) == "id" and j != ch - 3]
    if len(uses) != 1 or uses[0] < cl + 2 or not c.seq(uses[0], rx, ".", "recv", "(", ")") \
            or any(c.t(j) in ("(", ".", "{", "?", ";") for j in range(cl + 2, uses[0])):
        raise Unsupported("the hand-off receiver is not used exactly once, as `%s.recv()` opening the statement right after the spawn: outside rule H" % rx)
    body = c.text[c.end(bo):c.pos(bc)]
    edits = [
        (c.pos(ch), c.end(ch + 8), "vx_std_channel()"),
        (c.pos(k), c.end(cl + 1),
         "let __vx_thread = vx_thread_enter(w);\n        {" + body + "}\n        vx_thread_exit(__vx_thread, w);"),
    ]
    return apply_edits(text, edits)


def rule_async_block_try(text):
    """`?` inside an `async { .. }` block leaves the BLOCK, not the function.  R4 erases the block's `async`, so such a `?`
    would change meaning.  The one form that is kept is a `?` in tail position of the async block,
        async { .. ; X? }   ==   async { .. ; match X { Ok(v) => v, Err(e) => Err(e) } }
    (the block's value is the `Ok` payload, an `Err` becomes the block's value; `From` is the identity because the rewritten text
    only type-checks when both error types are the same).  Any other `?` in an async block is outside the rules."""
    def finder(c):
        for k in range(len(c)):
            if c.t(k) != "async" or c.kind(k) != "id":
                continue
            m = k + 1
            if c.t(m) == "move": m += 1
            if c.t(m) != "{":
                continue
            cl = c.close(m)
            qs = []
            j = m + 1
            while j < cl:
                x = c.t(j)
                if x == "async" and c.t(j + 1) in ("{", "move") and any(c.t(q) == "?" for q in range(j, cl)):
                    raise Unsupported("nested async blocks with `?`: outside the rules")
                if x == "?" and c.kind(j) == "p":
                    qs.append(j)
                j += 1
            if not qs:
                continue
            if len(qs) != 1 or qs[0] != cl - 1:
                raise Unsupported("`?` inside an async block that is not its tail expression: outside the rules")
            q = qs[0]
            # start of the tail expression: after the last `;` / `}`-terminated statement at block level
            s = m + 1
            j = m + 1
            while j < q:
                x = c.t(j)
                if c.kind(j) == "p" and x in OPEN:
                    j = c.close(j) + 1
                    continue
                if x == ";":
                    s = j + 1
                j += 1
            expr = c.text[c.pos(s):c.pos(q)].strip()
            return (c.pos(s), c.end(q), "(match %s { Ok(__bv) => __bv, Err(__be) => Err(__be) })" % expr)
        return None
    return rewrite(text, finder)
