"""R9 / rule D: make the scope-end drop of listed RAII bindings explicit.

Verus never sees implicit drops; for the guards whose Drop has an effect a property depends on
(wait-for edge removal, lock release, metrics recording) the drop is called explicitly at every exit
of the binding's scope: before each `return` (and `break`/`continue` that leaves the scope) and after
the tail expression.  A `?` inside such a scope is reported as unsupported.
Bindings are `let [mut] NAME = ..;` statements or `if let PAT(.. NAME ..) = .. { body }`.
"""
from .lex import Code, apply_edits, OPEN
from .passes import Unsupported, thing_end
from .rules import rewrite


def _block_statements(c, ob):
    cb = c.close(ob)
    out = []
    k = ob + 1
    while k < cb:
        if c.t(k) == ";":
            k += 1; continue
        e = thing_end(c, k)
        if e <= k:
            raise Unsupported("raii: cannot delimit statement")
        e = min(e, cb)
        out.append((k, e))
        k = e
    return out


def _scope_edits(c, ob, scan_from, name, dropcall, binder_stmt_start=None):
    """edits that make the drop of `name` explicit in the block opened at sig index `ob`;
    exits are searched from sig index `scan_from`."""
    cb = c.close(ob)
    stmts = _block_statements(c, ob)
    edits = []
    m = scan_from
    while m < cb:
        x = c.t(m)
        if x == "?" and c.kind(m) == "p":
            raise Unsupported("raii: `?` inside the scope of %s" % name)
        if x in ("loop", "while", "for") and c.kind(m) == "id" and c.t(m - 1) not in ("<", "impl"):
            hb = m
            while c.t(hb) != "{":
                if c.t(hb) in ("(", "["): hb = c.close(hb)
                hb += 1
            he = c.close(hb)
            for q in range(hb, he):
                if c.t(q) == "return" and c.kind(q) == "id":
                    edits.append(_exit_edit(c, q, dropcall))
                if c.t(q) == "?" and c.kind(q) == "p":
                    raise Unsupported("raii: `?` inside the scope of %s" % name)
            m = he + 1
            continue
        if c.kind(m) == "id" and x in ("return", "break", "continue"):
            edits.append(_exit_edit(c, m, dropcall))
        m += 1
    if not stmts:
        edits.append((c.pos(cb), c.pos(cb), dropcall + "\n"))
        return edits
    last_a, last_b = stmts[-1]
    last_is_tail = c.t(last_b - 1) != ";" and last_b == cb and last_a != binder_stmt_start
    diverges = c.t(last_a) in ("return", "break", "continue")
    if last_is_tail and not diverges and c.t(last_a) not in ("if", "match", "loop", "while", "for", "{"):
        tail = c.text[c.pos(last_a):c.pos(cb)].rstrip()
        edits.append((c.pos(last_a), c.pos(cb),
                      "let __raii_tail_%s = %s;\n%s\n__raii_tail_%s\n" % (name, tail, dropcall, name)))
    elif last_is_tail and not diverges:
        # block-like tail expression: bind its value, drop, yield the value
        tail = c.text[c.pos(last_a):c.pos(cb)].rstrip()
        edits.append((c.pos(last_a), c.pos(cb),
                      "let __raii_tail_%s = %s;\n%s\n__raii_tail_%s\n" % (name, tail, dropcall, name)))
    elif not diverges:
        edits.append((c.pos(cb), c.pos(cb), dropcall + "\n"))
    return edits


def rule_raii(text, raii):
    done = set()

    def finder(c):
        for k in range(len(c)):
            # ---- let [mut] NAME = ...;
            if c.t(k) == "let" and c.t(k - 1) != "if":
                j = k + 1
                if c.t(j) == "mut": j += 1
                name = c.t(j)
                if name not in raii or name in done or c.t(j + 1) not in ("=", ":"):
                    continue
                ob = c.enclosing_open(k)
                if ob < 0 or c.t(ob) != "{":
                    raise Unsupported("raii: binding %s not in a block" % name)
                stmts = _block_statements(c, ob)
                idx = [i for i, (a, b) in enumerate(stmts) if a == k]
                if not idx:
                    raise Unsupported("raii: let %s is not a statement of its block" % name)
                let_end = stmts[idx[0]][1]
                dropcall = "%s(%s, w);" % (raii[name], name)
                edits = _scope_edits(c, ob, let_end, name, dropcall, binder_stmt_start=k)
                done.add(name)
                return (0, len(c.text), apply_edits(c.text, edits))
            # ---- if let PAT = EXPR { body }
            if c.t(k) == "if" and c.t(k + 1) == "let":
                eq = k + 2
                while c.t(eq) != "=":
                    if c.t(eq) in OPEN: eq = c.close(eq)
                    eq += 1
                names = [c.t(q) for q in range(k + 2, eq) if c.kind(q) == "id" and c.t(q) in raii and ("iflet:" + c.t(q)) not in done]
                if not names:
                    continue
                name = names[0]
                hb = eq + 1
                while c.t(hb) != "{":
                    if c.t(hb) in ("(", "["): hb = c.close(hb)
                    hb += 1
                dropcall = "%s(%s, w);" % (raii[name], name)
                edits = _scope_edits(c, hb, hb + 1, name, dropcall)
                done.add("iflet:" + name)
                return (0, len(c.text), apply_edits(c.text, edits))
        return None
    return rewrite(text, finder)


def _exit_edit(c, m, dropcall):
    """`return E;` -> `{ let __raii_ret = E; drop; return __raii_ret; }` ; break/continue: drop first."""
    x = c.t(m)
    e = m + 1
    while e < len(c) and c.t(e) not in (";", ",", "}"):
        if c.t(e) in OPEN: e = c.close(e)
        e += 1
    if x == "return" and e > m + 1:
        val = c.slice(m + 1, e).strip()
        return (c.pos(m), c.pos(e), "{ let __raii_ret = %s; %s return __raii_ret; }" % (val, dropcall))
    return (c.pos(m), c.pos(e), "{ %s %s }" % (dropcall, c.slice(m, e).strip()))
