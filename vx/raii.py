"""R9 / rule D: make the scope-end drop of listed RAII bindings explicit.

Verus never sees implicit drops; for the guards whose Drop has an effect a property depends on
(wait-for edge removal, lock release, metrics recording) the drop is called explicitly at every exit
of the binding's scope: before each `return` (and `break`/`continue` that leaves the scope) and after
the tail expression.  A `?` inside such a scope is reported as unsupported.
Bindings are `let [mut] NAME = ..;` statements or `if let PAT(.. NAME ..) = .. { body }`.
"""
from .lex import Code, apply_edits, OPEN
from .passes import Unsupported, thing_end, if_body_open
from .rules import rewrite


def _block_statements(c, ob):
    cb = c.close(ob)
    out = []
    k = ob + 1
    while k < cb:
        if c.t(k) == ";":
            k += 1; continue
        e = thing_end(c, k)
        if e <= k:
            raise Unsupported("raii: cannot delimit statement")
        e = min(e, cb)
        out.append((k, e))
        k = e
    return out


def _scope_edits(c, ob, scan_from, name, dropcall, binder_stmt_start=None):
    """edits that make the drop of `name` explicit in the block opened at sig index `ob`;
    exits are searched from sig index `scan_from`."""
    cb = c.close(ob)
    stmts = _block_statements(c, ob)
    edits = []
    # an explicit `drop(name);` among the statements of the scope IS the release: it becomes the drop call of this guard, exits
    # before it are handled as usual, nothing is added after it
    limit = cb
    for (a, b) in stmts:
        if a < scan_from:
            continue
        toks = [c.t(q) for q in range(a, b)]
        if toks in (["drop", "(", name, ")", ";"], ["mem", "::", "drop", "(", name, ")", ";"], ["std", "::", "mem", "::", "drop", "(", name, ")", ";"]):
            edits.append((c.pos(a), c.pos(b) if b < len(c) else len(c.text), dropcall + "\n"))
            limit = a
            break
    explicit = limit != cb
    m = scan_from
    while m < limit:
        x = c.t(m)
        if x == "?" and c.kind(m) == "p":
            raise Unsupported("raii: `?` inside the scope of %s" % name)
        if x in ("loop", "while", "for") and c.kind(m) == "id" and c.t(m - 1) not in ("<", "impl"):
            hb = if_body_open(c, m)
            he = c.close(hb)
            for q in range(hb, he):
                if c.t(q) == "return" and c.kind(q) == "id":
                    edits.append(_exit_edit(c, q, dropcall))
                if c.t(q) == "?" and c.kind(q) == "p":
                    raise Unsupported("raii: `?` inside the scope of %s" % name)
            m = he + 1
            continue
        if c.kind(m) == "id" and x in ("return", "break", "continue"):
            edits.append(_exit_edit(c, m, dropcall))
        m += 1
    if explicit:
        return edits
    if not stmts:
        edits.append((c.pos(cb), c.pos(cb), dropcall + "\n"))
        return edits
    last_a, last_b = stmts[-1]
    last_is_tail = c.t(last_b - 1) != ";" and last_b == cb and last_a != binder_stmt_start
    diverges = c.t(last_a) in ("return", "break", "continue")
    if last_is_tail and not diverges:
        # tail expression (block-like or not): bind its value, drop, yield the value.  Exits inside the tail expression
        # (a `return` in a match arm) are rewritten first, inside the text that is then wrapped.
        t0, t1 = c.pos(last_a), c.pos(cb)
        inner = [(a - t0, b - t0, r) for (a, b, r) in edits if t0 <= a and b <= t1]
        edits = [e for e in edits if not (t0 <= e[0] and e[1] <= t1)]
        tail = apply_edits(c.text[t0:t1], inner).rstrip()
        edits.append((t0, t1, "let __raii_tail_%s = %s;\n%s\n__raii_tail_%s\n" % (name, tail, dropcall, name)))
    elif not diverges:
        edits.append((c.pos(cb), c.pos(cb), dropcall + "\n"))
    return edits


def _depth0_contains(c, a, b, pat_tokens):
    """does sig range [a,b) contain the token sequence at brace depth 0 (parentheses do not count)?"""
    depth = 0
    for q in range(a, b):
        x = c.t(q)
        if x == "{": depth += 1
        elif x == "}": depth -= 1
        elif depth == 0 and all(c.t(q + i) == pt for i, pt in enumerate(pat_tokens)):
            return True
    return False


def _match_init(c, a, b, raii):
    """which raii entry does the initialiser in sig range [a,b) select?  keys: `init:<token text>` (by what the binding is
    initialised from, independent of its name) or a plain binding name"""
    from .lex import Code as _C
    best = None
    for key, fn in raii.items():
        if not key.startswith("init:"):
            continue
        pat = [t.text for t in _C(key[5:]).toks if t.kind not in ("ws",)]
        if key[5:] == ".lock(":
            if _depth0_contains(c, a, b, pat):
                return fn
        else:
            for q in range(a, b):
                if all(c.t(q + i) == pt for i, pt in enumerate(pat)):
                    best = fn
                    break
    return best


def rule_raii(text, raii):
    done = set()

    def finder(c):
        for k in range(len(c)):
            # ---- let [mut] NAME = ...;
            if c.t(k) == "let" and c.t(k - 1) != "if":
                j = k + 1
                if c.t(j) == "mut": j += 1
                name = c.t(j)
                if c.kind(j) == "id" and c.t(j + 1) == "(" and name in ("Ok", "Some", "Err"):
                    # `let Ok(mut g) = INIT else { diverge };`: the binder is the identifier inside the pattern
                    pe = c.close(j + 1)
                    inner = [c.t(q) for q in range(j + 2, pe) if c.kind(q) == "id" and c.t(q) not in ("Ok", "Some", "Err", "mut", "ref")
                             and c.t(q + 1) != "(" and c.t(q + 1) != "::"]
                    if len(inner) != 1 or c.t(pe + 1) != "=":
                        continue
                    name = inner[0]
                    if name in done or name.startswith("__raii"):
                        continue
                    j = pe      # so that `eq` is found from here
                elif c.kind(j) != "id" or c.t(j + 1) not in ("=", ":") or ("let:%d:%s" % (c.pos(k), name)) in done or name.startswith("__raii"):
                    continue
                # extent of the initialiser
                eq = j + 1
                while c.t(eq) != "=":
                    eq += 1
                endi = eq + 1
                while endi < len(c) and c.t(endi) != ";":
                    if c.t(endi) in OPEN: endi = c.close(endi)
                    endi += 1
                dropfn = raii.get(name) or _match_init(c, eq + 1, endi, raii)
                if not dropfn or name in done:
                    continue
                if name == "_":
                    # `let _ = guard;` drops the guard at once (Rust semantics): make exactly that explicit
                    n = len([d for d in done if d.startswith("now")])
                    done.add("now%d" % n)
                    tmp = "__raii_now_%d" % n
                    return (c.pos(k), c.end(endi), "/*RAII-OK*/ let %s = %s; %s(%s, w);" % (tmp, c.slice(eq + 1, endi).strip(), dropfn, tmp))
                ob = c.enclosing_open(k)
                if ob < 0 or c.t(ob) != "{":
                    raise Unsupported("raii: binding %s not in a block" % name)
                stmts = _block_statements(c, ob)
                idx = [i for i, (a, b) in enumerate(stmts) if a == k]
                if not idx:
                    raise Unsupported("raii: let %s is not a statement of its block" % name)
                let_end = stmts[idx[0]][1]
                dropcall = "%s(%s, w);" % (dropfn, name)
                edits = _scope_edits(c, ob, let_end, name, dropcall, binder_stmt_start=k)
                edits.append((c.pos(k), c.pos(k), "/*RAII-OK*/ "))
                done.add(name)
                return (0, len(c.text), apply_edits(c.text, edits))
            # ---- if let PAT = EXPR { body }
            if c.t(k) == "if" and c.t(k + 1) == "let":
                eq = k + 2
                while c.t(eq) != "=":
                    if c.t(eq) in OPEN: eq = c.close(eq)
                    eq += 1
                hb = eq + 1
                while c.t(hb) != "{":
                    if c.t(hb) in ("(", "["): hb = c.close(hb)
                    hb += 1
                binders = [c.t(q) for q in range(k + 2, eq) if c.kind(q) == "id" and c.t(q) not in ("Ok", "Some", "Err", "mut", "ref", "let")
                           and c.t(q + 1) != "(" and c.t(q + 1) != "::"]
                dropfn = None
                name = None
                for bnm in binders:
                    if ("iflet:" + bnm) in done:
                        continue
                    if bnm in raii:
                        dropfn, name = raii[bnm], bnm; break
                    f2 = _match_init(c, eq + 1, hb, raii)
                    if f2:
                        dropfn, name = f2, bnm; break
                if not dropfn:
                    continue
                dropcall = "%s(%s, w);" % (dropfn, name)
                edits = _scope_edits(c, hb, hb + 1, name, dropcall)
                edits.append((c.pos(k), c.pos(k), "/*RAII-OK*/ "))
                done.add("iflet:" + name)
                return (0, len(c.text), apply_edits(c.text, edits))
        return None
    out = rewrite(text, finder)
    _check_coverage(out, raii)
    return out


def _check_coverage(text, raii):
    """Soundness of rule D: EVERY value produced by a guard initialiser (`.lock(`, `WaitForGuard(`, ..) must sit in a binding
    whose scope-end drop was made explicit (marked /*RAII-OK*/).  A guard bound in a form this rule does not know (a pattern, a
    temporary, a struct field, a return value) would silently never be released in the verified text - and that shows up as a
    FAILED obligation of a correct function.  Such text is outside the rules."""
    from .lex import Code as _C
    c = _C(text)
    # ranges of marked statements
    ranges = []
    for m in __import__("re").finditer(r"/\*RAII-OK\*/", text):
        # first significant token after the marker
        k0 = None
        for k in range(len(c)):
            if c.pos(k) >= m.end():
                k0 = k; break
        if k0 is None:
            continue
        e = thing_end(c, k0)
        if c.t(k0) == "if":
            e = c.close(if_body_open(c, k0)) + 1
        ranges.append((k0, e))
    for key in raii:
        if not key.startswith("init:"):
            continue
        pat = [t.text for t in _C(key[5:]).toks if t.kind not in ("ws",)]
        for q in range(len(c)):
            if all(c.t(q + i) == pt for i, pt in enumerate(pat)):
                if c.t(q - 1) in ("fn", "struct", "impl") or (pat[0] != "." and c.t(q - 1) == "::" and False):
                    continue
                if not any(a <= q < b for a, b in ranges):
                    raise Unsupported("raii: a guard produced by `%s..` is not bound in a form whose release rule D can make explicit" % key[5:])


def _exit_edit(c, m, dropcall):
    """`return E;` -> `{ let __raii_ret = E; drop; return __raii_ret; }` ; break/continue: drop first."""
    x = c.t(m)
    e = m + 1
    while e < len(c) and c.t(e) not in (";", ",", "}"):
        if c.t(e) in OPEN: e = c.close(e)
        e += 1
    if x == "return" and e > m + 1:
        val = c.slice(m + 1, e).strip()
        return (c.pos(m), c.pos(e), "{ let __raii_ret = %s; %s return __raii_ret; }" % (val, dropcall))
    return (c.pos(m), c.pos(e), "{ %s %s }" % (dropcall, c.slice(m, e).strip()))
