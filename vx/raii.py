"""R9 / rule D: make the scope-end drop of listed RAII bindings explicit.

Verus works on HIR/THIR-level text and never sees implicit drops; for the guards whose Drop has an
effect a property depends on (wait-for edge removal, lock release, metrics recording) the Drop body is
called explicitly at every exit of the binding's scope.
"""
from .lex import Code, apply_edits, OPEN
from .passes import Unsupported, stmt_end, thing_end
from .rules import rewrite


def _block_statements(c, ob):
    """[(start, end_exclusive)] of the statements of block opened at sig index ob."""
    cb = c.close(ob)
    out = []
    k = ob + 1
    while k < cb:
        if c.t(k) == ";":
            k += 1; continue
        e = thing_end(c, k)
        if e <= k:
            raise Unsupported("raii: cannot delimit statement")
        e = min(e, cb)
        out.append((k, e))
        k = e
    return out


def rule_raii(text, raii):
    done = set()

    def finder(c):
        for k in range(len(c)):
            if c.t(k) != "let":
                continue
            j = k + 1
            if c.t(j) == "mut": j += 1
            name = c.t(j)
            if name not in raii or name in done or c.t(j + 1) not in ("=", ":"):
                continue
            # an explicit marker of a binding already processed?
            ob = c.enclosing_open(k)
            if ob < 0 or c.t(ob) != "{":
                raise Unsupported("raii: binding %s not in a block" % name)
            cb = c.close(ob)
            stmts = _block_statements(c, ob)
            idx = [i for i, (a, b) in enumerate(stmts) if a == k]
            if not idx:
                raise Unsupported("raii: let %s is not a statement of its block" % name)
            let_end = stmts[idx[0]][1]
            dropcall = "%s(%s, w);" % (raii[name], name)
            edits = []
            # exits inside the scope
            loop_depth_marks = []
            m = let_end
            while m < cb:
                x = c.t(m)
                if x == "?" and c.kind(m) == "p":
                    raise Unsupported("raii: `?` inside the scope of %s" % name)
                if x in ("loop", "while", "for") and c.kind(m) == "id":
                    # skip inner loops for break/continue purposes but still handle `return` inside
                    hb = m
                    while c.t(hb) != "{":
                        if c.t(hb) in ("(", "["): hb = c.close(hb)
                        hb += 1
                    he = c.close(hb)
                    for q in range(hb, he):
                        if c.t(q) == "return" and c.kind(q) == "id":
                            edits.append(_exit_edit(c, q, dropcall))
                        if c.t(q) == "?" and c.kind(q) == "p":
                            raise Unsupported("raii: `?` inside the scope of %s" % name)
                    m = he + 1
                    continue
                if c.kind(m) == "id" and x in ("return", "break", "continue"):
                    edits.append(_exit_edit(c, m, dropcall))
                m += 1
            # scope end
            last_a, last_b = stmts[-1]
            last_is_tail = c.t(last_b - 1) != ";" and last_b == cb and last_a != k
            diverges = c.t(last_a) in ("return", "break", "continue")
            if last_is_tail and not diverges:
                tail = c.text[c.pos(last_a):c.pos(cb)].rstrip()
                edits.append((c.pos(last_a), c.pos(cb),
                              "let __raii_tail_%s = %s;\n%s\n__raii_tail_%s\n" % (name, tail, dropcall, name)))
            elif not diverges:
                edits.append((c.pos(cb), c.pos(cb), dropcall + "\n"))
            done.add(name)
            # all edits for this binding in one go: apply and return a whole-text replacement
            new = apply_edits(c.text, edits)
            return (0, len(c.text), new)
        return None
    return rewrite(text, finder)


def _exit_edit(c, m, dropcall):
    """`return E;` -> `{ let __raii_ret = E; drop; return __raii_ret; }` ; break/continue: drop first."""
    x = c.t(m)
    # extent of the exit expression: up to ';' or ',' or closing brace at depth 0
    e = m + 1
    while e < len(c) and c.t(e) not in (";", ",", "}"):
        if c.t(e) in OPEN: e = c.close(e)
        e += 1
    if x == "return" and e > m + 1:
        val = c.slice(m + 1, e).strip()
        return (c.pos(m), c.pos(e), "{ let __raii_ret = %s; %s return __raii_ret; }" % (val, dropcall))
    return (c.pos(m), c.pos(e), "{ %s %s }" % (dropcall, c.slice(m, e).strip()))
