"""Whole-file passes R1 (cfg resolution) and R2 (attributes, comments) and the item parser."""
import re
from .lex import Code, apply_edits, OPEN, CLOSE


class Unsupported(Exception):
    """A construct no rule covers, or a lost anchor: the check must answer 'undecided' (exit 2)."""


# ------------------------------------------------------------------ comments
def strip_comments(text):
    c = Code(text)
    edits = []
    for t in c.toks:
        if t.kind == "lc":
            edits.append((t.pos, t.pos + len(t.text), ""))
        elif t.kind == "bc":
            edits.append((t.pos, t.pos + len(t.text), "\n" * t.text.count("\n")))
    return apply_edits(text, edits)


# ------------------------------------------------------------------ cfg predicates
def eval_cfg(c, a, b, features):
    """evaluate the cfg predicate spanning significant tokens [a, b)."""
    k = a
    name = c.t(k)
    if name in ("not", "any", "all") and c.t(k + 1) == "(":
        close = c.close(k + 1)
        parts, start, depth = [], k + 2, 0
        j = k + 2
        while j < close:
            x = c.t(j)
            if x in OPEN: j = c.close(j)
            elif x == ",":
                parts.append((start, j)); start = j + 1
            j += 1
        if start < close:
            parts.append((start, close))
        vals = [eval_cfg(c, s, e, features) for s, e in parts]
        if name == "not":
            if len(vals) != 1: raise Unsupported("cfg(not(..)) arity")
            return not vals[0]
        return any(vals) if name == "any" else all(vals)
    if name == "feature" and c.t(k + 1) == "=":
        return c.t(k + 2).strip('"') in features
    if name in ("test", "kani", "doc", "miri", "loom"):
        return False
    if name == "debug_assertions":
        return True
    raise Unsupported("cfg predicate %r" % c.slice(a, b))


def _angle_scan_to_comma(c, k, stop):
    """from sig index k scan to the next ',' at depth 0 (angle-aware) or to `stop` (exclusive)."""
    ang = 0
    j = k
    while j < stop:
        x = c.t(j)
        if c.kind(j) == "p":
            if x in OPEN:
                j = c.close(j) + 1; continue
            if x == "<" and (c.kind(j - 1) == "id" or c.t(j - 1) == "::"):
                ang += 1
            elif x == ">" and ang > 0:
                ang -= 1
            elif x == "," and ang == 0:
                return j
        j += 1
    return stop


ITEM_KW = {"fn", "struct", "enum", "impl", "trait", "mod", "static", "const", "type", "use",
           "macro_rules", "unsafe", "async", "extern", "union"}
BLOCKLIKE = {"{", "match", "if", "loop", "while", "for", "unsafe"}


def thing_end(c, k):
    """Given sig index k of the first token of an attributed thing, return the sig index one past
    its last token (including a trailing ',' or ';' that belongs to it)."""
    enc = c.enclosing_open(k)
    stop = c.close(enc) if enc >= 0 else len(c)
    if enc >= 0 and c.t(enc) in "([":
        e = _angle_scan_to_comma(c, k, stop)
        return e + 1 if e < stop else stop
    j = k
    # visibility
    if c.t(j) == "pub":
        j += 1
        if c.t(j) == "(":
            j = c.close(j) + 1
    while c.t(j) in ("open", "closed", "spec", "proof", "exec", "uninterp", "broadcast", "tracked", "ghost") and c.kind(j + 1) == "id":
        j += 1
    x = c.t(j)
    if x in ITEM_KW and not (x == "unsafe" and c.t(j + 1) == "{"):
        # item: first ';' or first {...} group at depth 0
        m = j
        while m < stop:
            y = c.t(m)
            if c.kind(m) == "p":
                if y == ";": return m + 1
                if y == "{" and x not in ("use", "static", "const", "type"): return c.close(m) + 1
                if y in OPEN: m = c.close(m)
            m += 1
        raise Unsupported("unterminated item")
    # macro invocation in item/statement position:  path ! (..) ;   or path ! {..}
    m = j
    while c.kind(m) == "id" and c.t(m + 1) == "::":
        m += 2
    if c.kind(m) == "id" and c.t(m + 1) == "!" and c.t(m + 2) in OPEN:
        e = c.close(m + 2) + 1
        if c.t(e) == ";": e += 1
        return e
    if x == "let":
        m = j
        while m < stop:
            y = c.t(m)
            if c.kind(m) == "p":
                if y == ";": return m + 1
                if y in OPEN: m = c.close(m)
            m += 1
        raise Unsupported("unterminated let")
    if c.kind(j) == "id" and c.t(j + 1) == ":" :
        # struct field (definition or literal)
        e = _angle_scan_to_comma(c, j, stop)
        return e + 1 if e < stop else stop
    if c.kind(j) == "id" and c.t(j + 1) in (",", "}") and enc >= 0 and c.t(enc) == "{" and x not in BLOCKLIKE:
        # shorthand struct-literal field  `metrics,`
        return j + 2 if c.t(j + 1) == "," else j + 1
    return stmt_end(c, j, stop)


def if_body_open(c, k, stop=None):
    """sig index of the `{` that opens the body of the `if` / `while` at sig index k (struct patterns of `if let` skipped)"""
    stop = len(c) if stop is None else stop
    m = k
    if c.t(m) in ("if", "while") and c.t(m + 1) == "let":
        m += 2
        while m < stop and c.t(m) != "=":
            if c.t(m) in OPEN: m = c.close(m)
            m += 1
    while m < stop and c.t(m) != "{":
        if c.t(m) in OPEN: m = c.close(m)
        m += 1
    return m


def stmt_end(c, j, stop):
    """end (exclusive) of the expression statement starting at sig index j."""
    x = c.t(j)
    if x in BLOCKLIKE:
        m = j
        if x == "{":
            e = c.close(m) + 1
        else:
            def body_open(m):
                # `if let PAT = EXPR {` / `while let ..`: braces of a struct PATTERN come before the `=`; the scrutinee cannot
                # contain a struct literal at its top level, so the body is the first `{` after that `=`
                if c.t(m) in ("if", "while") and c.t(m + 1) == "let":
                    m += 2
                    while m < stop and c.t(m) != "=":
                        if c.t(m) in OPEN: m = c.close(m)
                        m += 1
                while m < stop and c.t(m) != "{":
                    if c.t(m) in OPEN: m = c.close(m)
                    m += 1
                return m
            m = body_open(m)
            e = c.close(m) + 1
            while c.t(e) == "else":
                m = body_open(e + 1)
                e = c.close(m) + 1
        if c.t(e) in (".", "?"):
            pass  # block used as a receiver: fall through to ';' scan
        else:
            if c.t(e) == ";": e += 1
            return e
    m = j
    while m < stop:
        y = c.t(m)
        if c.kind(m) == "p":
            if y == ";": return m + 1
            if y in OPEN: m = c.close(m)
        m += 1
    return stop


def resolve_cfg(text, features):
    """R1: resolve #[cfg(..)] for the given feature set; drop #[cfg_attr(..)]."""
    while True:
        c = Code(text)
        edit = None
        for k in range(len(c)):
            if c.t(k) == "#" and c.t(k + 1) == "[" and c.t(k + 2) in ("cfg", "cfg_attr") and c.t(k + 3) == "(":
                close_attr = c.close(k + 1)
                if c.t(k + 2) == "cfg_attr":
                    edit = (c.pos(k), c.end(close_attr), ""); break
                keep = eval_cfg(c, k + 4, c.close(k + 3), features)
                if keep:
                    edit = (c.pos(k), c.end(close_attr), ""); break
                # skip further attributes of the same thing
                j = close_attr + 1
                while c.t(j) == "#" and c.t(j + 1) == "[":
                    j = c.close(j + 1) + 1
                e = thing_end(c, j)
                edit = (c.pos(k), c.end(e - 1), ""); break
            if c.t(k) == "cfg" and c.t(k + 1) == "!" and c.t(k + 2) == "(" and c.t(k - 1) not in ("::", "."):
                # the cfg!(..) macro is a constant for a given feature set (left to rustc it would be evaluated against the
                # VERIFIER's configuration, which has none of the crate's features)
                val = eval_cfg(c, k + 3, c.close(k + 2), features)
                edit = (c.pos(k), c.end(c.close(k + 2)), "true" if val else "false"); break
        if edit is None:
            return text
        text = apply_edits(text, [edit])


KEEP_DERIVES = ("Clone", "Copy")


def drop_attrs(text):
    """R2: drop attributes; `derive` keeps only Clone/Copy."""
    c = Code(text)
    edits = []
    k = 0
    while k < len(c):
        if c.t(k) == "#" and (c.t(k + 1) == "[" or (c.t(k + 1) == "!" and c.t(k + 2) == "[")):
            ob = k + 1 if c.t(k + 1) == "[" else k + 2
            cl = c.close(ob)
            repl = ""
            if c.t(ob + 1) == "derive":
                names = [c.t(j) for j in range(ob + 3, c.close(ob + 2)) if c.kind(j) == "id"]
                kept = [n for n in names if n in KEEP_DERIVES]
                if kept:
                    repl = "#[derive(%s)]" % ", ".join(kept)
            edits.append((c.pos(k), c.end(cl), repl))
            k = cl + 1
            continue
        k += 1
    return apply_edits(text, edits)


# ------------------------------------------------------------------ items
class Item:
    def __init__(self, kind, name, text, header="", body=None, children=None, sig=""):
        self.kind, self.name, self.text = kind, name, text
        self.header = header          # impl/trait header (normalised), fn signature for fns
        self.body = body              # text of the {...} body including braces (fns), or None
        self.children = children or []
        self.sig = sig                # fn: text from `fn` up to the body / ';'

    def child(self, name):
        for ch in self.children:
            if ch.name == name and ch.kind == "fn":
                return ch
        raise Unsupported("lost anchor: fn %s in %s" % (name, self.header or self.name))

    def __repr__(self):
        return "<%s %s>" % (self.kind, self.name or self.header)


def norm(s):
    s = re.sub(r"\s+", " ", s).strip()
    s = re.sub(r"\s*([<>,:&()\[\]])\s*", r"\1", s)
    return s


def parse_items(text):
    """Parse the items of a (comment-free, cfg-resolved, attribute-stripped) file or impl body."""
    c = Code(text)
    items = []
    k = 0
    n = len(c)
    while k < n:
        start = k
        # attributes that survived (derive)
        while c.t(k) == "#" and c.t(k + 1) == "[":
            k = c.close(k + 1) + 1
        if c.t(k) == "pub":
            k += 1
            if c.t(k) == "(": k = c.close(k) + 1
        quals = []
        while c.t(k) in ("async", "const", "unsafe", "extern", "default") and c.t(k + 1) != "{" \
                and not (c.t(k) == "const" and c.kind(k + 1) == "id" and c.t(k + 1) not in ("fn", "async", "unsafe", "extern")):
            quals.append(c.t(k)); k += 1
        x = c.t(k)
        if x == "fn":
            name = c.t(k + 1)
            j = k + 2
            while j < n and c.t(j) not in ("{", ";"):
                if c.t(j) in OPEN: j = c.close(j)
                j += 1
            sig = text[c.pos(start):c.pos(j)]
            if c.t(j) == "{":
                e = c.close(j) + 1
                body = text[c.pos(j):c.end(e - 1)]
            else:
                e = j + 1; body = None
            items.append(Item("fn", name, text[c.pos(start):c.end(e - 1)], body=body, sig=sig))
            k = e; continue
        if x in ("struct", "enum", "union"):
            name = c.t(k + 1)
            j = k + 2
            while j < n and c.t(j) not in ("{", ";", "("):
                j += 1
            if c.t(j) == "{":
                e = c.close(j) + 1
            elif c.t(j) == "(":
                e = c.close(j) + 1
                while c.t(e) != ";": e += 1
                e += 1
            else:
                e = j + 1
            items.append(Item(x, name, text[c.pos(start):c.end(e - 1)]))
            k = e; continue
        if x in ("impl", "trait"):
            j = k + 1
            while j < n and c.t(j) != "{":
                if c.t(j) in ("(", "["): j = c.close(j)
                j += 1
            header = norm(text[c.pos(k):c.pos(j)])
            e = c.close(j) + 1
            inner = text[c.end(j):c.pos(e - 1)]
            name = c.t(k + 1) if x == "trait" else ""
            it = Item(x, name, text[c.pos(start):c.end(e - 1)], header=header,
                      children=parse_items(inner))
            it.header_raw = text[c.pos(start):c.pos(j)]
            items.append(it)
            k = e; continue
        if x == "macro_rules" and c.t(k + 1) == "!":
            name = c.t(k + 2)
            e = c.close(k + 3) + 1
            if c.t(e) == ";": e += 1
            items.append(Item("macro_rules", name, text[c.pos(start):c.end(e - 1)]))
            k = e; continue
        if x in ("static", "const", "type", "use", "mod", "extern"):
            j = k
            e = None
            while j < n:
                if c.t(j) == ";": e = j + 1; break
                if c.t(j) == "{" and x in ("mod", "extern"): e = c.close(j) + 1; break
                if c.t(j) in OPEN: j = c.close(j)
                j += 1
            if e is None: raise Unsupported("unterminated %s item" % x)
            nm = c.t(k + 1)
            if nm == "mut": nm = c.t(k + 2)
            items.append(Item(x, nm, text[c.pos(start):c.end(e - 1)]))
            k = e; continue
        # macro invocation item:  path!{..}  /  path!(..);
        j = k
        while c.kind(j) == "id" and c.t(j + 1) == "::":
            j += 2
        if c.kind(j) == "id" and c.t(j + 1) == "!" and c.t(j + 2) in OPEN:
            e = c.close(j + 2) + 1
            if c.t(e) == ";": e += 1
            items.append(Item("macro_call", c.t(j), text[c.pos(start):c.end(e - 1)]))
            k = e; continue
        raise Unsupported("item parser: unexpected token %r near %r" % (x, text[c.pos(k):c.pos(k) + 60]))
    return items


def find_item(items, kind, name=None, header=None):
    for it in items:
        if it.kind != kind: continue
        if name is not None and it.name != name: continue
        if header is not None and it.header != norm(header): continue
        return it
    raise Unsupported("lost anchor: %s %s" % (kind, name or header))


def impl_parts(header):
    """`impl<G> Trait for Ty where W` -> dict(generics, trait, trait_head, self_ty, where)   (trait None for inherent)"""
    c = Code(header)
    k = 0
    while c.t(k) != "impl":
        k += 1
    j = k + 1
    g = ""
    if c.t(j) == "<":
        depth, m = 0, j
        while True:
            if c.t(m) == "<": depth += 1
            elif c.t(m) == ">":
                depth -= 1
                if depth == 0: break
            m += 1
        g = c.slice(j + 1, m).strip()
        j = m + 1
    # find top-level `for` (not inside <...>) and `where`
    depth, f, wv = 0, None, None
    m = j
    while m < len(c):
        x = c.t(m)
        if x == "<": depth += 1
        elif x == ">": depth -= 1
        elif x in ("(", "["): m = c.close(m)
        elif depth == 0 and x == "for" and f is None and c.t(m + 1) != "<": f = m
        elif depth == 0 and x == "where": wv = m; break
        m += 1
    end = wv if wv is not None else len(c)
    if f is None:
        tr, st = None, c.slice(j, end).strip()
    else:
        tr, st = c.slice(j, f).strip(), c.slice(f + 1, end).strip()
    wh = header[c.pos(wv + 1):].strip().rstrip(",") if wv is not None else ""
    head = None
    if tr:
        tc = Code(tr)
        # last path segment ident before generics
        i = 0
        head = tc.t(0)
        while tc.t(i + 1) == "::":
            i += 2; head = tc.t(i)
    return {"generics": g, "trait": tr, "trait_head": head, "self_ty": norm(st), "where": wh}
